"""Check runner: structure instances in a process pool, obligations -> verdicts -> replay -> known findings ->
exit code + evidence file.  Exit codes: 0 held, 1 VIOLATION (replay-confirmed, not a known finding),
3 inconclusive / harness error (never a verdict)."""
import fnmatch
import hashlib
import importlib
import json
import multiprocessing as mp
import os
import sys
import time
import traceback
from fractions import Fraction

ROOT = os.path.dirname(os.path.dirname(os.path.abspath(__file__)))


class Inst:
    """one structure instance: everything discrete is fixed, everything continuous is symbolic"""

    def __init__(self, name, fn, nvars=28, raises=(), samples=3, timeout_ms=20000, max_paths=2000, meta=None, kind="symx",
                 expect_paths_min=1, public_replay=None, tags=()):
        self.name = name
        self.fn = fn
        self.nvars = nvars
        self.raises = tuple(raises)
        self.samples = samples
        self.timeout_ms = timeout_ms
        self.max_paths = max_paths
        self.meta = meta or {}
        self.kind = kind
        self.expect_paths_min = expect_paths_min
        self.public_replay = public_replay
        self.tags = tuple(tags)


class LazySample(dict):
    """concrete valuation generated on demand, deterministically from (seed, k, variable name, range)"""

    def __init__(self, seed, k, base=None):
        super().__init__(base or {})
        self.seed, self.k = seed, k
        self.ranges = {}

    def draw(self, name, lo, hi):
        if lo is None and hi is None:
            lo, hi = -2.0, 2.0
        elif lo is None:
            lo = hi - 2.0
        elif hi is None:
            hi = lo + 2.0
        h = int(hashlib.sha256(f"{self.seed}:{self.k}:{name}".encode()).hexdigest()[:12], 16) / float(16 ** 12)
        lo, hi = float(lo), float(hi)
        x = lo + (0.05 + 0.9 * h) * (hi - lo)
        return Fraction(round(x, 4)).limit_denominator(10000)


def _install_lazy(core):
    """teach both context classes to draw missing sample values lazily"""
    if getattr(core, "_lazy_installed", False):
        return
    core._lazy_installed = True
    sym_var, conc_var = core.Ctx.var, core.CCtx.var

    def ctx_var(self, name, lo=None, hi=None, default=None):
        if self.val is not None and isinstance(self.sample, LazySample) and name not in self.sample and "!" not in name:
            self.sample[name] = self.sample.draw(name, lo, hi)
        return sym_var(self, name, lo, hi, default)

    def cctx_var(self, name, lo=None, hi=None, default=None):
        if isinstance(self.sample, LazySample) and name not in self.sample:
            self.sample[name] = self.sample.draw(name, lo, hi)
        return conc_var(self, name, lo, hi, default)

    core.Ctx.var = ctx_var
    core.CCtx.var = cctx_var


def _base(name):
    return name.split("#")[0]


def _run_instance(args):
    modname, iname, tier, seed = args
    t0 = time.time()
    out = dict(instance=iname, obligations=[], summary={}, validated=0, validation_errors=[], error=None, wall_s=0.0,
               replays=[], meta={})
    try:
        sys.setrecursionlimit(20000)
        from symx import core, loader
        _install_lazy(core)
        hm = importlib.import_module(modname)
        inst = [i for i in hm.instances(tier) if i.name == iname][0]
        out["meta"] = inst.meta
        core.configure(inst.nvars)
        loader.reset()
        obligations, summary = core.explore(inst.fn, timeout_ms=inst.timeout_ms, max_paths=inst.max_paths, raises=inst.raises)
        out["obligations"] = obligations
        out["summary"] = summary
        # --- replay of every sat obligation against the real (uninstrumented) code, concrete floats
        for ob in obligations:
            if ob["verdict"] != "sat":
                continue
            rec = dict(name=ob["name"], path=ob["path"], model=ob["model"], reproduced=False, observed=None)
            if ob["name"].startswith("no_undocumented_exception/"):
                want = ob["name"].split("/", 1)[1]
                try:
                    core.run_concrete(inst.fn, dict(ob["model"]), raises=inst.raises)
                    rec["observed"] = "the real code did not raise at the model"
                except core.SkipSample as e:
                    rec["observed"] = f"model outside the concrete domain: {e}"
                except Exception as e:
                    rec["observed"] = f"{type(e).__name__}: {e}"
                    rec["reproduced"] = type(e).__name__ == want
                out["replays"].append(rec)
                continue
            try:
                conc = core.run_concrete(inst.fn, dict(ob["model"]), raises=inst.raises)
                hits = [c for c in conc if c[0] == ob["name"] or _base(c[0]) == _base(ob["name"])]
                bad = [c for c in hits if not c[3]]
                if bad:
                    rec["reproduced"] = True
                    rec["observed"] = dict(claim=bad[0][0], lhs=_js(bad[0][1]), rhs=_js(bad[0][2]))
                elif not hits:
                    rec["observed"] = "claim not reached on the concrete path"
                else:
                    rec["observed"] = dict(claim=hits[0][0], lhs=_js(hits[0][1]), rhs=_js(hits[0][2]), holds=True)
                if rec["reproduced"] and inst.public_replay is not None:
                    try:
                        rec["public_api"] = inst.public_replay(dict(ob["model"]), ob["name"])
                    except Exception as e:
                        rec["public_api"] = f"public replay raised {type(e).__name__}: {e}"
            except core.SkipSample as e:
                rec["observed"] = f"model outside the concrete domain: {e}"
            except Exception as e:
                rec["observed"] = f"concrete run raised {type(e).__name__}: {e}"
                rec["trace"] = traceback.format_exc()[-1500:]
            out["replays"].append(rec)
        # --- encoder validation: symbolic terms evaluated at sample points == the real code on floats
        nval = 0
        for k in range(inst.samples * 15):
            if nval >= inst.samples:
                break
            s1 = LazySample(seed, k)
            try:
                sym = core.run_concolic(inst.fn, s1, raises=inst.raises)
                s2 = LazySample(seed, k, {n: v for n, v in s1.items() if "!" not in n})
                conc = core.run_concrete(inst.fn, s2, raises=inst.raises)
            except core.SkipSample:
                continue
            except core.Abort as e:
                out["validation_errors"].append(f"sample {k}: abort {e}")
                continue
            except Exception as e:
                # the code under test raises at this sample: nothing to compare (an undocumented exception is reported by the exploration)
                out.setdefault("validation_skipped", []).append(f"sample {k}: {type(e).__name__}: {e}")
                continue
            cd = {}
            for c in conc:
                cd.setdefault(c[0], c)
            matched = 0
            for name, lv, rv, holds in sym:
                if name not in cd:
                    continue
                _, clv, crv, cok = cd[name]
                for a, b, side in ((lv, clv, "lhs"), (rv, crv, "rhs")):
                    if isinstance(a, float) and isinstance(b, (float, int)) and not (a != a or b != b):
                        if abs(a - b) > 1e-6 * max(1.0, abs(a), abs(b)):
                            out["validation_errors"].append(
                                f"sample {k} claim {name} {side}: symbolic {a!r} vs real code {b!r} at {dict(s2)}")
                matched += 1
            if matched:
                nval += 1
        out["validated"] = nval
    except BaseException as e:     # noqa
        out["error"] = f"{type(e).__name__}: {e}\n{traceback.format_exc()[-3000:]}"
    out["wall_s"] = round(time.time() - t0, 2)
    return out


def _js(x):
    try:
        if x is None:
            return None
        return float(x)
    except Exception:
        return str(x)


def load_known():
    p = os.path.join(ROOT, "known_findings.json")
    if not os.path.exists(p):
        return []
    return json.load(open(p)).get("findings", [])


def run_check(prop, tier, seed, only=None, jobs=None, verbose=False):
    t0 = time.time()
    sys.path.insert(0, ROOT)
    repo = os.environ.get("VERIF_REPO")
    if repo:
        sys.path.insert(0, repo)
    modname = f"harness.{prop.lower()}"
    hm = importlib.import_module(modname)
    if tier == "thorough":
        os.environ.setdefault("SYMX_CROSSCHECK", "cvc5")      # every obligation is re-decided by cvc5 from the SMT-LIB2 dump
    insts = hm.instances(tier)
    if only:
        insts = [i for i in insts if fnmatch.fnmatch(i.name, only)]
    jobs = jobs or min(16, max(1, len(insts)))
    results = []
    limit = getattr(hm, "INSTANCE_TIMEOUT_S", {}).get(tier, 600 if tier == "quick" else 2400)
    ctx = mp.get_context("fork")
    with ctx.Pool(processes=jobs, maxtasksperchild=1) as pool:
        pend = [(i, pool.apply_async(_run_instance, ((modname, i.name, tier, seed),))) for i in insts]
        for i, p in pend:
            try:
                results.append(p.get(timeout=max(1, limit - (time.time() - t0)) if False else limit))
            except mp.TimeoutError:
                results.append(dict(instance=i.name, obligations=[], summary={}, validated=0, validation_errors=[],
                                    error=f"instance exceeded {limit}s", wall_s=limit, replays=[], meta=i.meta))
        pool.terminate()
    extra = {}
    if hasattr(hm, "extra_checks"):
        extra = hm.extra_checks(tier, seed) or {}
    return finish(prop, hm, tier, seed, insts, results, extra, t0, verbose)


def finish(prop, hm, tier, seed, insts, results, extra, t0, verbose=False):
    from symx import loader
    known = [k for k in load_known() if k.get("property") == prop]
    inconclusive, violations, known_hits, twin_fail = [], [], {}, []
    q = dict(unsat=0, sat=0, unknown=0, canonical_zero=0)
    paths = decisions = validated = n_obl = n_unsat = 0
    solver_s = 0.0
    samples = []
    per_inst = []
    for r in results:
        if r["error"]:
            inconclusive.append(f"{r['instance']}: {r['error'].splitlines()[0]}")
            if verbose:
                print(r["error"], file=sys.stderr)
            continue
        s = r["summary"]
        paths += s.get("paths", 0)
        decisions += s.get("branch_decisions", 0)
        solver_s += s.get("solver_s", 0.0)
        validated += r["validated"]
        for k, v in s.get("queries", {}).items():
            q[k] = q.get(k, 0) + v
        for a in s.get("aborted", []):
            inconclusive.append(f"{r['instance']}: {a}")
        for e in r["validation_errors"]:
            inconclusive.append(f"{r['instance']}: encoder validation: {e}")
        if s.get("paths", 0) < 1:
            inconclusive.append(f"{r['instance']}: no feasible path reached the obligations")
        nob = 0
        for ob in r["obligations"]:
            if ob["name"] == "__vacuity__":
                inconclusive.append(f"{r['instance']}: path {ob['path']} assumptions are {ob['verdict']}")
                continue
            nob += 1
            n_obl += 1
            if ob["verdict"] == "unsat":
                n_unsat += 1
            elif ob["verdict"] == "unknown":
                inconclusive.append(f"{r['instance']}: obligation {ob['name']} (path {ob['path']}): solver unknown")
            if len(samples) < 6 and ob["verdict"] == "unsat" and not any(x["instance"] == r["instance"] for x in samples):
                samples.append(dict(instance=r["instance"], obligation=ob["name"], path=ob["path"], verdict=ob["verdict"],
                                    canonical_zero=ob["canonical_zero"], structure=r.get("meta")))
        if nob == 0 and not r["error"]:
            inconclusive.append(f"{r['instance']}: no obligation was generated")
        per_inst.append(dict(instance=r["instance"], paths=s.get("paths"), obligations=nob, wall_s=r["wall_s"],
                             solver_s=s.get("solver_s"), nvars=s.get("nvars"), documented_raises=s.get("documented_raises"),
                             validated_samples=r["validated"]))
        by_claim = {}
        for rp in r["replays"]:
            by_claim.setdefault(_base(rp["name"]), []).append(rp)
        for claim, rps in by_claim.items():
            sig = f"{prop}/{r['instance']}/{claim}"
            good = [x for x in rps if x["reproduced"]]
            if not good:
                inconclusive.append(f"{sig}: counterexample did not reproduce on the real code ({rps[0]['observed']})")
                continue
            hit = [k for k in known if k.get("status", "known") == "known" and fnmatch.fnmatch(sig, k["pattern"])]
            if hit:
                known_hits.setdefault(hit[0]["pattern"], dict(k=hit[0], sigs=[]))["sigs"].append(sig)
            else:
                violations.append(dict(signature=sig, replay=good[0]))
    # harness-level extras (crosshair runs, reachability twins, lemmas)
    for e in extra.get("inconclusive", []):
        inconclusive.append(e)
    for v in extra.get("violations", []):
        sig = v["signature"]
        hit = [k for k in known if k.get("status", "known") == "known" and fnmatch.fnmatch(sig, k["pattern"])]
        if hit:
            known_hits.setdefault(hit[0]["pattern"], dict(k=hit[0], sigs=[]))["sigs"].append(sig)
        else:
            violations.append(v)
    for k, v in extra.get("queries", {}).items():
        q[k] = q.get(k, 0) + v
    n_obl += extra.get("obligations", 0)
    n_unsat += extra.get("discharged", 0)
    paths += extra.get("paths", 0)
    decisions += extra.get("decisions", 0)
    solver_s += extra.get("solver_s", 0.0)
    validated += extra.get("validated", 0)
    samples += extra.get("samples", [])

    wall = round(time.time() - t0, 2)
    level = getattr(hm, "LEVEL", "model_checking")
    cov = dict(states=paths, transitions=max(decisions, paths), traces_validated_against_impl=validated,
               samples=samples or [dict(note="no discharged obligation to show")],
               obligations=n_obl, discharged=n_unsat, exhaustive=not inconclusive,
               queries=q, solver_time_s=round(solver_s, 3),
               functions_encoded=loader.describe(getattr(hm, "FUNCTIONS", [])),
               rewrites_applied=loader.REWRITES, stubs=getattr(hm, "STUBS", []),
               bounds=getattr(hm, "BOUNDS", {}).get(tier, getattr(hm, "BOUNDS", {})),
               structure_instances=per_inst, outside_claim=getattr(hm, "OUTSIDE", []),
               solver="z3 " + __import__("z3").get_version_string() + ("; obligations re-decided by cvc5 1.4 from the SMT-LIB2 dump (5 s each; disagreement = inconclusive)" if os.environ.get("SYMX_CROSSCHECK") == "cvc5" else ""),
               known_findings=[dict(pattern=p, signatures=v["sigs"]) for p, v in known_hits.items()],
               inconclusive=inconclusive[:40])
    if level == "translation_validation":
        cov["programs"] = max(1, len([p for p in per_inst]))
        cov["disagreements_checked"] = n_obl
    cov.update(extra.get("coverage", {}))
    ev = dict(property_id=prop, tier=tier, seed=int(seed), level=level, coverage=cov,
              assumptions=getattr(hm, "ASSUMPTIONS", []), wall_s=wall, violations=len(violations))
    os.makedirs(os.path.join(ROOT, "evidence"), exist_ok=True)
    with open(os.path.join(ROOT, "evidence", f"{prop}.json"), "w") as f:
        json.dump(ev, f, indent=1, default=str)
    print(f"[{prop}] tier={tier} instances={len(insts)} paths={paths} obligations={n_obl} unsat={n_unsat} "
          f"queries={q} solver_s={round(solver_s, 2)} validated_samples={validated} wall_s={wall}")
    for p, v in known_hits.items():
        print(f"KNOWN-FINDING: property={prop} {v['k']['what']} [{len(v['sigs'])} obligation(s), e.g. {v['sigs'][0]}]")
    if violations:
        os.makedirs(os.path.join(ROOT, "replays", prop), exist_ok=True)
        for v in violations:
            h = hashlib.sha256(json.dumps(v, sort_keys=True, default=str).encode()).hexdigest()[:12]
            path = os.path.join(ROOT, "replays", prop, f"{h}.json")
            v["rerun"] = f"./check {prop} --replay {path}"
            with open(path, "w") as f:
                json.dump(v, f, indent=1, default=str)
            print(f"VIOLATION property={prop} replay={path}")
            print(f"  signature={v['signature']} observed={json.dumps(v['replay'].get('observed'), default=str)[:300]}")
        return 1
    if inconclusive:
        for m in inconclusive[:20]:
            print(f"INCONCLUSIVE property={prop} reason={m}")
        return 3
    return 0


def replay_file(prop, path):
    """re-run a stored counterexample against the real code"""
    sys.path.insert(0, ROOT)
    from symx import core
    _install_lazy(core)
    v = json.load(open(path))
    hm = importlib.import_module(f"harness.{prop.lower()}")
    _, iname, claim = v["signature"].split("/", 2)
    if v["replay"].get("kind") == "external":
        print(json.dumps(v, indent=1))
        return 0
    for tier in ("quick", "thorough"):
        cands = [i for i in hm.instances(tier) if i.name == iname]
        if cands:
            break
    inst = cands[0]
    conc = core.run_concrete(inst.fn, dict(v["replay"]["model"]), raises=inst.raises)
    bad = [c for c in conc if _base(c[0]) == claim and not c[3]]
    for c in conc:
        if _base(c[0]) == claim:
            print("claim", c[0], "lhs", c[1], "rhs", c[2], "holds", c[3])
    print("REPRODUCED" if bad else "not reproduced")
    return 1 if bad else 0
