import argparse
import os
import sys

ROOT = os.path.dirname(os.path.dirname(os.path.abspath(__file__)))
sys.path.insert(0, ROOT)
if os.environ.get("VERIF_REPO"):
    sys.path.insert(0, os.environ["VERIF_REPO"])


def main():
    import logging
    logging.disable(logging.CRITICAL)      # the repository logs errors for documented, handled situations
    ap = argparse.ArgumentParser()
    ap.add_argument("prop")
    ap.add_argument("--tier", default=os.environ.get("VERIF_TIER", "quick"), choices=["quick", "thorough"])
    ap.add_argument("--only")
    ap.add_argument("--replay")
    ap.add_argument("--jobs", type=int)
    ap.add_argument("-v", action="store_true")
    a = ap.parse_args()
    from vf import runner
    if a.replay:
        sys.exit(runner.replay_file(a.prop.upper(), a.replay))
    seed = int(os.environ.get("VERIF_SEED", "0") or 0)
    sys.exit(runner.run_check(a.prop.upper(), a.tier, seed, only=a.only, jobs=a.jobs, verbose=a.v))


if __name__ == "__main__":
    main()
