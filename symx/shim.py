"""numpy proxy (R2, R5), astype (R1) and the dense stand-in for scipy.sparse (R3)."""
import math
import types
from fractions import Fraction

import numpy as np

from .core import (SReal, SComplex, SBool, Rad, Ctx, Abort, issym, _isnan, unit, arctan_deg, arcsin_deg, angle_deg,
                   DEG, _and, _or)


def _map(f, *arrs):
    arrs = [a if isinstance(a, np.ndarray) else _as_obj(a) for a in arrs]
    b = np.broadcast(*arrs)
    out = np.empty(b.shape, dtype=object)
    out.flat = [f(*xs) for xs in b]
    return out


def _as_obj(a):
    if isinstance(a, DMat):
        return a.A
    if issym(a) or isinstance(a, Rad):
        o = np.empty((), dtype=object)
        o[()] = a
        return o
    if isinstance(a, (list, tuple)):
        try:
            r = np.asarray(a)
            if r.dtype != object:
                return r
            if r.ndim > 1:          # a regular nested list with symbolic cells: keep its shape
                return r
        except Exception:
            pass
        o = np.empty(len(a), dtype=object)
        for i, x in enumerate(a):
            o[i] = x
        return o
    return np.asarray(a)


def to_obj(r):
    """R5: float/complex ndarray -> object ndarray with numpy scalar cells"""
    if isinstance(r, np.ndarray) and r.dtype.kind in "fc":
        o = np.empty(r.shape, dtype=object)
        if r.size:
            o[...] = r
        return o
    return r


def _has_sym(a):
    if issym(a) or isinstance(a, Rad):
        return True
    if isinstance(a, DMat):
        return True
    if isinstance(a, np.ndarray):
        return a.dtype == object and any(issym(x) or isinstance(x, Rad) for x in a.flat)
    if isinstance(a, (list, tuple)):
        return any(_has_sym(x) for x in a)
    if hasattr(a, "dtype") and hasattr(a, "values") and getattr(a, "dtype", None) == object:   # pandas
        return _has_sym(np.asarray(a.values))
    return False


def _scalar_or(r, like):
    if isinstance(r, np.ndarray) and r.ndim == 0 and not isinstance(like, np.ndarray):
        return r[()]
    return r


class _IndexTrick:
    def __init__(self, trick):
        self.trick = trick

    def __getitem__(self, key):
        items = key if isinstance(key, tuple) else (key,)
        if any(_has_sym(x) for x in items):
            items = tuple(_as_obj(x) if not isinstance(x, str) else x for x in items)
        return to_obj(self.trick[items if isinstance(key, tuple) else items[0]])


class NP:
    """symbolic-mode numpy proxy: forwards to numpy, except allocators and the ufuncs whose object loops are
    not faithful; every float/complex array returned is converted to an object array (R5)."""

    def __init__(self):
        self.__dict__["_np"] = np
        self.__dict__["c_"] = _IndexTrick(np.c_)
        self.__dict__["r_"] = _IndexTrick(np.r_)

    def __getattr__(self, k):
        v = getattr(np, k)
        if isinstance(v, (types.FunctionType, types.BuiltinFunctionType, np.ufunc)) or type(v).__name__ == "_ArrayFunctionDispatcher":
            def wrapped(*a, **kw):
                return to_obj(v(*a, **kw))
            wrapped.__name__ = k
            return wrapped
        if isinstance(v, types.ModuleType) and k == "linalg":
            return v
        return v

    # allocators ---------------------------------------------------------------------------------------
    @staticmethod
    def _fill(shape, val, dtype=None):
        if dtype is not None and np.dtype(dtype).kind not in "fc":
            return np.full(shape, val, dtype=dtype)
        a = np.empty(shape, dtype=object)
        a[...] = np.complex128(val) if (dtype is not None and np.dtype(dtype).kind == "c") else np.float64(val)
        return a

    def zeros(self, shape, dtype=None, **kw): return self._fill(shape, 0.0, dtype)
    def ones(self, shape, dtype=None, **kw): return self._fill(shape, 1.0, dtype)
    def empty(self, shape, dtype=None, **kw): return self._fill(shape, 0.0, dtype)

    def full(self, shape, fill_value, dtype=None, **kw):
        if dtype is not None and np.dtype(dtype).kind not in "fc":
            return np.full(shape, fill_value, dtype=dtype)
        if dtype is None and isinstance(fill_value, (bool, np.bool_, int, np.integer, str)):
            return np.full(shape, fill_value)
        a = np.empty(shape, dtype=object)
        a[...] = fill_value
        return a

    def zeros_like(self, a, dtype=None, **kw):
        a = np.asarray(a)
        if dtype is None and a.dtype.kind not in "fcO":
            return np.zeros_like(a)
        return self._fill(a.shape, 0.0, dtype)

    def ones_like(self, a, dtype=None, **kw):
        a = np.asarray(a)
        if dtype is None and a.dtype.kind not in "fcO":
            return np.ones_like(a)
        return self._fill(a.shape, 1.0, dtype)

    def empty_like(self, a, dtype=None, **kw):
        return self.zeros_like(a, dtype)

    def full_like(self, a, fill_value, dtype=None, **kw):
        a = np.asarray(a)
        if dtype is None and a.dtype.kind not in "fcO":
            return np.full_like(a, fill_value)
        return self.full(a.shape, fill_value, dtype if dtype is not None else float)

    def array(self, obj, dtype=None, **kw):
        kw.pop("copy", None)
        if dtype is not None and np.dtype(dtype).kind in "fc":
            if _has_sym(obj):
                return np.array(_as_obj(obj), dtype=object)
            return to_obj(np.array(obj, dtype=dtype))
        if isinstance(obj, DMat):
            return obj.A.copy()
        return to_obj(np.array(obj, dtype=dtype, **kw))

    def asarray(self, obj, dtype=None, **kw):
        if isinstance(obj, DMat):
            return obj.A
        if dtype is not None and np.dtype(dtype).kind in "fc" and _has_sym(obj):
            return _as_obj(obj)
        return to_obj(np.asarray(obj, dtype=dtype))

    # predicates ---------------------------------------------------------------------------------------
    def isnan(self, a, **kw):
        if issym(a): return False
        a = np.asarray(a)
        if a.dtype != object: return np.isnan(a)
        r = _map(lambda x: (not issym(x)) and isinstance(x, (float, np.floating, complex, np.complexfloating)) and bool(np.isnan(x)), a).astype(bool)
        return r if r.shape else bool(r)

    def isfinite(self, a, **kw):
        if issym(a): return True
        a = np.asarray(a)
        if a.dtype != object: return np.isfinite(a)
        r = _map(lambda x: issym(x) or bool(np.isfinite(x)), a).astype(bool)
        return r if r.shape else bool(r)

    def isinf(self, a, **kw):
        if issym(a): return False
        a = np.asarray(a)
        if a.dtype != object: return np.isinf(a)
        r = _map(lambda x: (not issym(x)) and bool(np.isinf(x)), a).astype(bool)
        return r if r.shape else bool(r)

    def isreal(self, a):
        if issym(a): return not isinstance(a, SComplex)
        a = np.asarray(a)
        if a.dtype != object: return np.isreal(a)
        return _map(lambda x: (not isinstance(x, SComplex)) if issym(x) else bool(np.isreal(x)), a).astype(bool)

    def nan_to_num(self, a, copy=True, nan=0.0, posinf=None, neginf=None):
        a0 = a
        a = np.asarray(a) if not issym(a) else a
        if issym(a): return a
        if a.dtype != object: return to_obj(np.nan_to_num(a, nan=nan, posinf=posinf, neginf=neginf))
        return _scalar_or(_map(lambda x: x if issym(x) else np.nan_to_num(x, nan=nan, posinf=posinf, neginf=neginf), a), a0)

    def isclose(self, a, b, rtol=1e-5, atol=1e-8, equal_nan=False):
        def f(x, y):
            if not issym(x) and not issym(y):
                return bool(np.isclose(x, y, rtol=rtol, atol=atol, equal_nan=equal_nan))
            if _isnan(x) or _isnan(y):
                return False
            return bool(abs(x - y) <= atol + rtol * abs(y))
        r = _map(f, a, b)
        return r.astype(bool) if r.shape else bool(r)

    def allclose(self, a, b, **kw): return bool(np.all(self.isclose(a, b, **kw)))

    # elementwise ---------------------------------------------------------------------------------------
    def _el(self, f, a, fallback):
        if issym(a) or isinstance(a, Rad): return f(a)
        if isinstance(a, DMat): a = a.A
        a0 = a
        a = _as_obj(a)
        if a.dtype != object: return to_obj(fallback(a)) if isinstance(a0, np.ndarray) or a.ndim else fallback(a0)
        return _scalar_or(_map(lambda x: f(x) if (issym(x) or isinstance(x, Rad)) else fallback(x), a), a0)

    def sqrt(self, a, **kw):
        return self._el(lambda x: x.sqrt() if isinstance(x, SReal) else _csqrt(x), a, np.sqrt)

    def abs(self, a, **kw):
        return self._el(abs, a, np.abs)
    absolute = abs

    def sign(self, a, **kw):
        return self._el(lambda x: (1.0 if x > 0 else (-1.0 if x < 0 else 0.0)), a, np.sign)

    def square(self, a, **kw):
        return self._el(lambda x: x * x, a, np.square)

    def power(self, a, b, **kw):
        return _scalar_or(_map(lambda x, y: x ** y, a, b), a)

    def negative(self, a, **kw):
        return self._el(lambda x: -x, a, np.negative)

    def reciprocal(self, a, **kw):
        return self._el(lambda x: 1 / x, a, np.reciprocal)

    @staticmethod
    def _mm(pick):
        def g(a, b, out=None, where=True, **kw):
            r = _map(pick, a, b)
            if out is not None:
                w = np.broadcast_to(np.asarray(where), out.shape)
                for idx in np.ndindex(out.shape):
                    if w[idx]: out[idx] = r[idx]
                return out
            return r if r.shape else r[()]
        return g

    @staticmethod
    def _fmax(x, y):
        if _isnan(x): return y
        if _isnan(y): return x
        return x if x >= y else y

    @staticmethod
    def _fmin(x, y):
        if _isnan(x): return y
        if _isnan(y): return x
        return x if x <= y else y

    @staticmethod
    def _max(x, y):
        if _isnan(x) or _isnan(y): return float("nan")
        return x if x >= y else y

    @staticmethod
    def _min(x, y):
        if _isnan(x) or _isnan(y): return float("nan")
        return x if x <= y else y

    def fmax(self, a, b, out=None, where=True, **kw): return self._mm(self._fmax)(a, b, out, where)
    def fmin(self, a, b, out=None, where=True, **kw): return self._mm(self._fmin)(a, b, out, where)
    def maximum(self, a, b, out=None, where=True, **kw): return self._mm(self._max)(a, b, out, where)
    def minimum(self, a, b, out=None, where=True, **kw): return self._mm(self._min)(a, b, out, where)

    def clip(self, a, a_min=None, a_max=None, out=None, **kw):
        r = a
        if a_min is not None: r = self.maximum(r, a_min)
        if a_max is not None: r = self.minimum(r, a_max)
        if out is not None:
            out[...] = r
            return out
        return r

    def _reduce(self, a, axis, pick):
        if isinstance(a, DMat): a = a.A
        a = _as_obj(a)
        if a.dtype != object:
            return None
        if axis is None:
            items = list(a.flat)
            r = items[0]
            for x in items[1:]:
                r = pick(r, x)
            return r
        return np.apply_along_axis(lambda v: self._reduce(v, None, pick), axis, a)

    def max(self, a, axis=None, **kw):
        r = self._reduce(a, axis, self._max)
        return to_obj(np.max(a, axis=axis, **kw)) if r is None else r
    amax = max

    def min(self, a, axis=None, **kw):
        r = self._reduce(a, axis, self._min)
        return to_obj(np.min(a, axis=axis, **kw)) if r is None else r
    amin = min

    def nanmax(self, a, axis=None, **kw):
        r = self._reduce(a, axis, self._fmax)
        return to_obj(np.nanmax(a, axis=axis, **kw)) if r is None else r

    def nanmin(self, a, axis=None, **kw):
        r = self._reduce(a, axis, self._fmin)
        return to_obj(np.nanmin(a, axis=axis, **kw)) if r is None else r

    def argmax(self, a, axis=None, **kw):
        a = _as_obj(a)
        if a.dtype != object or axis is not None: return np.argmax(a, axis=axis, **kw)
        best = 0
        items = list(a.flat)
        for i in range(1, len(items)):
            if _isnan(items[best]): break
            if _isnan(items[i]) or bool(items[i] > items[best]): best = i
        return best

    def argmin(self, a, axis=None, **kw):
        a = _as_obj(a)
        if a.dtype != object or axis is not None: return np.argmin(a, axis=axis, **kw)
        best = 0
        items = list(a.flat)
        for i in range(1, len(items)):
            if _isnan(items[best]): break
            if _isnan(items[i]) or bool(items[i] < items[best]): best = i
        return best

    def where(self, c, a=None, b=None):
        if isinstance(c, DMat): c = c.A
        c = _as_obj(c)
        cb = c.astype(bool) if c.dtype == object else c
        if a is None: return np.where(cb)
        r = _map(lambda cc, x, y: x if cc else y, cb, a, b)
        rr = np.asarray(a), np.asarray(b)
        if all(x.dtype != object for x in rr):
            return to_obj(np.where(cb, a, b))
        return r

    @staticmethod
    def _arith(op, npf):
        def g(a, b, out=None, where=True, dtype=None, **kw):
            ao, bo = _as_obj(a), _as_obj(b)
            if ao.dtype != object and bo.dtype != object and (out is None or out.dtype != object):
                return to_obj(npf(a, b, out=out, where=where, dtype=dtype, **kw)) if out is not None or dtype is not None or where is not True \
                    else to_obj(npf(a, b, **kw))
            r = _map(op, ao, bo)
            if out is not None:
                w = np.broadcast_to(np.asarray(where), out.shape)
                for idx in np.ndindex(out.shape):
                    if w[idx]: out[idx] = r[idx]
                return out
            return r if r.shape else r[()]
        return g

    def divide(self, a, b, **kw): return self._arith(lambda x, y: x / y, np.divide)(a, b, **kw)
    true_divide = divide
    def multiply(self, a, b, **kw): return self._arith(lambda x, y: x * y, np.multiply)(a, b, **kw)
    def add(self, a, b, **kw): return self._arith(lambda x, y: x + y, np.add)(a, b, **kw)
    def subtract(self, a, b, **kw): return self._arith(lambda x, y: x - y, np.subtract)(a, b, **kw)

    def deg2rad(self, a, **kw): return self._el(lambda x: Rad(x), a, np.deg2rad)
    radians = deg2rad
    def rad2deg(self, a, **kw): return self._el(lambda x: x.deg if isinstance(x, Rad) else x / DEG(), a, np.rad2deg)
    degrees = rad2deg
    def cos(self, a, **kw): return self._el(lambda x: unit(x.deg).re if isinstance(x, Rad) else unit(x / DEG()).re, a, np.cos)
    def sin(self, a, **kw): return self._el(lambda x: unit(x.deg).im if isinstance(x, Rad) else unit(x / DEG()).im, a, np.sin)

    def tan(self, a, **kw):
        def f(x):
            u = unit(x.deg) if isinstance(x, Rad) else unit(x / DEG())
            return u.im / u.re
        return self._el(f, a, np.tan)

    def arctan(self, a, **kw): return self._el(lambda x: Rad(arctan_deg(x)), a, np.arctan)
    def arcsin(self, a, **kw): return self._el(lambda x: Rad(arcsin_deg(x)), a, np.arcsin)

    def arctan2(self, y, x, **kw):
        def f(yy, xx):
            if not issym(yy) and not issym(xx): return np.arctan2(yy, xx)
            return Rad(angle_deg(SComplex(xx, yy)))
        return _scalar_or(_map(f, y, x), y)

    def angle(self, z, deg=False):
        def f(x):
            d = angle_deg(SComplex.of(x))
            return d if deg else Rad(d)
        return self._el(f, z, lambda q: np.angle(q, deg=deg))

    def exp(self, a, **kw):
        def f(x):
            if isinstance(x, SComplex):
                if not (x.re.is_const() and x.re.const() == 0): raise Abort("exp of non-imaginary symbolic")
                return unit(x.im / DEG())
            hook = Ctx.cur.memo.get("__exp_hook__")
            if hook is not None: return hook(x)
            raise Abort("exp of symbolic real")
        return self._el(f, a, np.exp)

    def log10(self, a, **kw):
        def f(x):
            hook = Ctx.cur.memo.get("__log10_hook__")
            if hook is not None: return hook(x)
            raise Abort("log10 of symbolic real")
        return self._el(f, a, np.log10)

    def real(self, a):
        if issym(a): return a.real
        if isinstance(a, DMat): return DMat(self.real(a.A))
        a = np.asarray(a)
        if a.dtype != object: return to_obj(a.real)
        return _map(lambda x: x.real, a)

    def imag(self, a):
        if issym(a): return a.imag
        if isinstance(a, DMat): return DMat(self.imag(a.A))
        a = np.asarray(a)
        if a.dtype != object: return to_obj(a.imag)
        return _map(lambda x: x.imag, a)

    def conj(self, a, **kw):
        if issym(a): return a.conjugate()
        if isinstance(a, DMat): return DMat(self.conj(a.A))
        a = np.asarray(a)
        if a.dtype != object: return to_obj(np.conj(a))
        return _map(lambda x: x.conjugate(), a)
    conjugate = conj

    def any(self, a, *args, **kw):
        a = np.asarray(a)
        if a.dtype != object or args or kw: return np.any(a, *args, **kw)
        return any(bool(x) for x in a.flat)

    def all(self, a, *args, **kw):
        a = np.asarray(a)
        if a.dtype != object or args or kw: return np.all(a, *args, **kw)
        return all(bool(x) for x in a.flat)

    def sum(self, a, axis=None, **kw):
        if isinstance(a, DMat): return a.sum(axis)
        return _scalar_or(to_obj(np.sum(_as_obj(a), axis=axis, **kw)), None)

    def interp(self, x, xp, fp, left=None, right=None, **kw):
        if not (_has_sym(x) or _has_sym(xp) or _has_sym(fp)):
            return to_obj(np.interp(x, xp, fp, left=left, right=right)) if isinstance(x, np.ndarray) else np.interp(x, xp, fp, left=left, right=right)
        xp = list(_as_obj(xp).flat); fp = list(_as_obj(fp).flat)
        lft = fp[0] if left is None else left
        rgt = fp[-1] if right is None else right

        def one(xx):
            # documented semantics of numpy.interp for increasing xp
            if _isnan(xx): return float("nan")
            if bool(xx < xp[0]): return lft
            if bool(xx > xp[-1]): return rgt
            for k in range(len(xp) - 1):
                if bool(xx <= xp[k + 1]):
                    if bool(xx == xp[k + 1]): return fp[k + 1]
                    return fp[k] + (fp[k + 1] - fp[k]) * (xx - xp[k]) / (xp[k + 1] - xp[k])
            return rgt
        if issym(x) or not isinstance(x, (np.ndarray, list, tuple)) and not hasattr(x, "values"):
            return one(x)
        xa = _as_obj(np.asarray(x.values) if hasattr(x, "values") else x)
        return _map(one, xa)

    def sort(self, a, axis=-1, **kw):
        a = _as_obj(a)
        if a.dtype != object or a.ndim != 1: return to_obj(np.sort(a, axis=axis, **kw))
        idx = self.argsort(a)
        return a[idx]

    def bincount(self, x, weights=None, minlength=0):
        # documented semantics: out[n] = sum of weights[i] over i with x[i] == n
        if weights is None or not _has_sym(weights):
            return to_obj(np.bincount(np.asarray(x, dtype=np.int64), weights=None if weights is None else np.asarray(weights, dtype=float), minlength=minlength))
        x = [int(v) for v in np.asarray(x).flat]
        w = list(_as_obj(weights).flat)
        out = np.zeros(max([minlength] + [v + 1 for v in x]), dtype=object)
        out[:] = 0.0
        for i, n in enumerate(x):
            out[n] = out[n] + w[i]
        return out

    def argsort(self, a, axis=-1, kind=None, **kw):
        a = _as_obj(a)
        if a.dtype != object or a.ndim != 1: return np.argsort(a, axis=axis, kind=kind, **kw)
        idx = list(range(len(a)))
        # stable insertion sort; comparisons fork
        for i in range(1, len(idx)):
            j = i
            while j > 0 and bool(a[idx[j]] < a[idx[j - 1]]):
                idx[j], idx[j - 1] = idx[j - 1], idx[j]
                j -= 1
        return np.array(idx, dtype=np.int64)


def _csqrt(x):
    raise Abort("sqrt of symbolic complex")


def astype(a, dtype, *args, **kw):
    """R1"""
    try:
        kind = np.dtype(dtype).kind
    except TypeError:
        kind = "?"
    if hasattr(a, "values") and hasattr(a, "index") and not isinstance(a, np.ndarray):     # pandas Series/DataFrame
        if kind in "fc" and _has_sym(a):
            return a.copy()
        return a.astype(dtype, *args, **kw)
    if isinstance(a, DMat):
        return a
    if isinstance(a, np.ndarray) and a.dtype == object and kind in "fc" and any(issym(x) for x in a.flat):
        return a.copy()
    if issym(a):
        return a
    if isinstance(a, (bool, int, float, complex)):       # a cell of an object array where numpy would have had a numpy scalar
        return np.asarray(a).astype(dtype, *args, **kw)[()]
    r = a.astype(dtype, *args, **kw)
    return to_obj(r)


# ------------------------------------------------------------------------------------- dense stand-in for scipy.sparse
class DMat:
    """dense object matrix with the scipy.sparse *matrix* semantics the kernels use (`*` is matmul)"""
    __array_priority__ = 5000

    def __init__(self, arg, shape=None, dtype=None, copy=False):
        if isinstance(arg, DMat):
            self.A = arg.A.copy(); return
        if hasattr(arg, "toarray") and not isinstance(arg, np.ndarray):
            self.A = to_obj(np.asarray(arg.toarray())).astype(object); return
        if isinstance(arg, np.ndarray) and arg.ndim == 2:
            self.A = arg.astype(object); return
        if isinstance(arg, np.ndarray) and arg.ndim == 1:
            self.A = arg.astype(object).reshape(1, -1); return
        if isinstance(arg, tuple) and len(arg) == 2 and isinstance(arg[0], (int, np.integer)):
            self.A = np.empty(arg, dtype=object); self.A[...] = 0.0; return
        if isinstance(arg, tuple) and len(arg) == 2:
            data, (i, j) = arg
            i = [int(x) for x in i]; j = [int(x) for x in j]
            if shape is None: shape = (max(i) + 1, max(j) + 1)
            # scipy.sparse's coo check, same messages
            for ax, idx in enumerate((i, j)):
                if len(idx) and max(idx) >= shape[ax]:
                    raise ValueError(f"axis {ax} index {max(idx)} exceeds matrix dimension {shape[ax]}")
                if len(idx) and min(idx) < 0:
                    raise ValueError(f"negative axis {ax} index: {min(idx)}")
            self.A = np.empty(shape, dtype=object); self.A[...] = 0.0
            data = list(np.broadcast_to(_as_obj(data), (len(i),))) if not isinstance(data, (list, np.ndarray)) or np.ndim(data) == 0 else list(data)
            for d, a, b in zip(data, i, j):
                self.A[a, b] = self.A[a, b] + d
            return
        if isinstance(arg, tuple) and len(arg) == 3:
            data, indices, indptr = arg
            if shape is None: shape = (len(indptr) - 1, int(max(indices)) + 1 if len(indices) else 0)
            self.A = np.empty(shape, dtype=object); self.A[...] = 0.0
            for r in range(shape[0]):
                for k in range(int(indptr[r]), int(indptr[r + 1])):
                    self.A[r, int(indices[k])] = self.A[r, int(indices[k])] + data[k]
            return
        if isinstance(arg, (list,)):
            self.A = np.array(arg, dtype=object); return
        raise TypeError(f"DMat: unsupported constructor argument {type(arg)}")

    shape = property(lambda s: s.A.shape)
    ndim = 2
    dtype = np.dtype(object)
    nnz = property(lambda s: len(s._csr()[0]))
    size = property(lambda s: len(s._csr()[0]))

    @property
    def T(self): return DMat(self.A.T.copy())
    def transpose(self): return self.T
    @property
    def H(self): return DMat(NP().conj(self.A.T.copy()))
    def conj(self): return DMat(NP().conj(self.A))
    conjugate = conj
    @property
    def real(self): return DMat(NP().real(self.A))
    @property
    def imag(self): return DMat(NP().imag(self.A))
    def tocsr(self, copy=False): return self
    def tocsc(self, copy=False): return self
    def tocoo(self, copy=False): return self
    def tolil(self, copy=False): return self
    def copy(self): return DMat(self.A.copy())
    def toarray(self): return self.A
    todense = toarray
    def astype(self, *a, **k): return self
    def eliminate_zeros(self): pass
    def __delattr__(self, k): pass
    def sum_duplicates(self): pass
    def sort_indices(self): pass
    has_sorted_indices = True
    has_canonical_format = True
    def diagonal(self): return np.array([self.A[i, i] for i in range(min(self.A.shape))], dtype=object)

    def sum(self, axis=None):
        if axis is None: return self.A.sum()
        r = self.A.sum(axis=axis)
        return np.matrix(r.reshape(1, -1), dtype=object) if axis == 0 else np.matrix(r.reshape(-1, 1), dtype=object)

    def dot(self, o): return self * o

    def multiply(self, o):
        return DMat(self.A * (o.A if isinstance(o, DMat) else o))

    def __mul__(self, o):
        if isinstance(o, DMat): return DMat(self.A.dot(o.A))
        if isinstance(o, np.ndarray):
            return self.A.dot(o.astype(object) if o.dtype != object else o)
        return DMat(self.A * o)
    __matmul__ = __mul__

    def __rmul__(self, o):
        if isinstance(o, np.ndarray): return o.dot(self.A)
        return DMat(self.A * o)
    __rmatmul__ = __rmul__

    def __truediv__(self, o): return DMat(self.A / o)
    def __add__(self, o): return DMat(self.A + (o.A if isinstance(o, DMat) else o))
    __radd__ = __add__
    def __sub__(self, o): return DMat(self.A - (o.A if isinstance(o, DMat) else o))
    def __rsub__(self, o): return DMat((o.A if isinstance(o, DMat) else o) - self.A)
    def __neg__(self): return DMat(-self.A)

    def __getitem__(self, k):
        if isinstance(k, tuple) and len(k) == 2:
            r, c = k
            if isinstance(r, (list, np.ndarray)) and isinstance(c, (list, np.ndarray)) and np.ndim(r) == 1 and np.ndim(c) == 1:
                pass
        r = self.A[k]
        if isinstance(r, np.ndarray):
            if r.ndim == 2: return DMat(r)
            if r.ndim == 1:
                # scipy keeps 2-D: row slice -> 1 x n, column slice -> n x 1
                if isinstance(k, tuple) and len(k) == 2 and isinstance(k[1], (int, np.integer)):
                    return DMat(r.reshape(-1, 1))
                return DMat(r.reshape(1, -1))
        return r

    def __setitem__(self, k, v): self.A[k] = v.A if isinstance(v, DMat) else v
    def __array__(self, dtype=None, copy=None): return self.A

    def _csr(self):
        data, idx, ptr = [], [], [0]
        for r in range(self.A.shape[0]):
            for c in range(self.A.shape[1]):
                x = self.A[r, c]
                if issym(x) or x != 0:
                    data.append(x); idx.append(c)
            ptr.append(len(data))
        d = np.empty(len(data), dtype=object)
        for i, x in enumerate(data): d[i] = x
        return d, np.array(idx, dtype=np.int64), np.array(ptr, dtype=np.int64)

    data = property(lambda s: s._csr()[0])
    indices = property(lambda s: s._csr()[1])
    indptr = property(lambda s: s._csr()[2])


def _sp_vstack(blocks, format=None, **kw):
    return DMat(np.vstack([b.A if isinstance(b, DMat) else to_obj(np.asarray(b.toarray() if hasattr(b, "toarray") else b)) for b in blocks]))


def _sp_hstack(blocks, format=None, **kw):
    return DMat(np.hstack([b.A if isinstance(b, DMat) else to_obj(np.asarray(b.toarray() if hasattr(b, "toarray") else b)) for b in blocks]))


def _sp_issparse(x):
    import scipy.sparse as sp
    return isinstance(x, DMat) or sp.issparse(x)


def _sp_diags(diagonals, offsets=0, shape=None, **kw):
    d = _as_obj(diagonals)
    n = len(d)
    A = np.empty((n, n), dtype=object); A[...] = 0.0
    for i in range(n): A[i, i] = d[i]
    return DMat(A)


def _sp_identity(n, **kw):
    A = np.empty((n, n), dtype=object); A[...] = 0.0
    for i in range(n): A[i, i] = 1.0
    return DMat(A)


def sym_inv(N):
    """inverse of a small matrix with symbolic cells (adjugate / determinant by cofactor expansion; exact in the fraction field)"""
    A = _as_obj(N.toarray() if hasattr(N, "toarray") else N)
    n = A.shape[0]

    def det(M):
        if len(M) == 1:
            return M[0][0]
        tot = 0.0
        for j in range(len(M)):
            minor = [row[:j] + row[j + 1:] for row in M[1:]]
            term = M[0][j] * det(minor)
            tot = tot + term if j % 2 == 0 else tot - term
        return tot
    rows = [list(A[i]) for i in range(n)]
    d = det(rows)
    out = np.zeros((n, n), dtype=object)
    for i in range(n):
        for j in range(n):
            if n == 1:
                c = 1.0
            else:
                minor = [r[:i] + r[i + 1:] for k, r in enumerate(rows) if k != j]
                c = det(minor)
            out[i, j] = (c if (i + j) % 2 == 0 else -c) / d
    return out


SPARSE_NAMES = {"csr_matrix": DMat, "csc_matrix": DMat, "coo_matrix": DMat, "sparse": DMat, "csr_array": DMat,
                "vstack": _sp_vstack, "hstack": _sp_hstack, "issparse": _sp_issparse, "diags": _sp_diags,
                "identity": _sp_identity, "eye": _sp_identity, "lil_matrix": DMat}
NUMPY_FUNCS = {name for name in dir(NP) if not name.startswith("_")}
