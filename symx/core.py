"""SYMX core: symbolic scalars over a canonical rational-function field, path exploration, z3 back end.

The repository's own numpy/pandas code is executed by the interpreter on `object` arrays whose cells are the
scalars defined here.  Every scalar is a canonical rational function (sympy FracField over QQ); z3 only ever sees
polynomial constraints.  Coercing a symbolic comparison to `bool` forks the path (decision-list DFS, re-execution).

Three execution modes share one harness function `fn(ctx)`:
  sym       exhaustive DFS over feasible paths, obligations decided by the solver            (the verdict)
  concolic  same symbolic machinery, branch decisions taken from a concrete valuation        (encoder validation)
  concrete  plain floats through the *uninstrumented* repository modules                     (validation + replay)
"""
import math
import time
import os
import sys
from fractions import Fraction

import numpy as np
import z3
from sympy.polys.fields import field
from sympy.polys.domains import QQ


class Abort(BaseException):
    """path cannot be continued soundly (unknown branch, concretisation, unsupported operation)"""


class Infeasible(BaseException):
    """the path condition became unsatisfiable"""


class SkipSample(BaseException):
    """a concrete sample point violates a domain assumption"""


class _Field:
    pass


F = _Field()
PI_LO = Fraction("3.141592653589793")
PI_HI = Fraction("3.141592653589794")


def configure(nvars=28):
    """(re)build the field; generator 0 is reserved for the constant pi"""
    names = ["PI"] + [f"v{i}" for i in range(1, nvars + 1)]
    F.K, *F.gens = field(names, QQ)
    F.Z = [z3.Real(n) for n in names]
    F.n = nvars + 1
    F.PI = F.gens[0]
    F.zero = F.K(0)
    F.one = F.K(1)


configure(int(os.environ.get("SX_NVARS", "28")))


def _q(fr):
    return F.K(QQ(fr.numerator, fr.denominator))


def _short_decimal(x, digits=7):
    s = repr(float(x))
    mant = s.split("e")[0].replace("-", "").replace(".", "").lstrip("0")
    return len(mant) <= digits


def _const(x):
    """python/numpy number -> field element (None for nan/inf and non-numbers)"""
    if isinstance(x, (bool, np.bool_)):
        return F.K(int(x))
    if isinstance(x, (int, np.integer)):
        return F.K(int(x))
    if isinstance(x, (float, np.floating)):
        x = float(x)
        if math.isnan(x) or math.isinf(x):
            return None
        if x != 0.0 and not _short_decimal(x, 12) and not os.environ.get('SX_NOPI'):
            # T5: rational multiples of pi and of 1/pi stay exact (pi/180, 180/pi, 2*pi*50, pi*1e-9*f, ...)
            for r, inv in ((x / math.pi, False), (x * math.pi, True)):
                cands = [Fraction(r).limit_denominator(100000)]
                if _short_decimal(r):
                    cands.insert(0, Fraction(repr(r)))
                for fr in cands:
                    if fr == 0 or abs(fr.numerator) > 10 ** 9:
                        continue
                    back = float(fr) / math.pi if inv else float(fr) * math.pi
                    if abs(back - x) <= 4 * abs(math.ulp(x)):
                        return _q(fr) / F.PI if inv else _q(fr) * F.PI
        return _q(Fraction(repr(x)))          # T2: shortest round-trip decimal
    if isinstance(x, Fraction):
        return _q(x)
    return None


def _isnan(x):
    return isinstance(x, (float, np.floating)) and math.isnan(float(x))


def poly_to_z3(p):
    terms = []
    for mon, coef in p.terms():
        t = z3.RealVal(f"{int(coef.numerator)}/{int(coef.denominator)}")
        for i, e in enumerate(mon):
            for _ in range(e):
                t = t * F.Z[i]
        terms.append(t)
    if not terms:
        return z3.RealVal(0)
    return z3.Sum(terms) if len(terms) > 1 else terms[0]


def _peval(p, val):
    """exact evaluation of a polynomial at a full rational valuation"""
    tot = Fraction(0)
    for mon, coef in p.terms():
        t = Fraction(int(coef.numerator), int(coef.denominator))
        for i, e in enumerate(mon):
            if e:
                t *= val[i] ** e
        tot += t
    return tot


# ------------------------------------------------------------------------------------------------ contexts
class Stats:
    def __init__(self):
        self.q = dict(unsat=0, sat=0, unknown=0, canonical_zero=0)
        self.tq = 0.0
        self.branch_decisions = 0


class Ctx:
    cur = None
    mode = "sym"

    def __init__(self, decisions=None, timeout_ms=20000, valuation=None, stats=None):
        self.decisions = decisions if decisions is not None else []
        self.pos = 0
        self.pc = []
        self.side = [F.Z[0] > z3.RealVal(str(PI_LO)), F.Z[0] < z3.RealVal(str(PI_HI))]
        self.names = {"PI": 0}
        self.ranges = {}
        self.nvar = 1
        self.timeout_ms = timeout_ms
        self.memo = {}
        self.claims = []           # (name, SBool|bool, lhs, rhs)
        self.stats = stats or Stats()
        self.sample = valuation    # dict name -> Fraction (concolic) or None
        self.val = [Fraction(repr(math.pi))] + [None] * (F.n - 1) if valuation is not None else None
        self.mode = "concolic" if valuation is not None else "sym"
        self.notes = []

    symbolic = True

    # -- variables
    def var(self, name, lo=None, hi=None, default=None):
        if name in self.names:
            return SReal(F.gens[self.names[name]])
        i = self.nvar
        if i >= F.n:
            raise Abort("out of field generators (raise nvars of the instance)")
        self.nvar += 1
        self.names[name] = i
        self.ranges[name] = (lo, hi)
        if lo is not None:
            self.side.append(F.Z[i] >= z3.RealVal(str(Fraction(repr(lo)) if isinstance(lo, float) else lo)))
        if hi is not None:
            self.side.append(F.Z[i] <= z3.RealVal(str(Fraction(repr(hi)) if isinstance(hi, float) else hi)))
        if self.val is not None:
            if name not in self.sample:
                raise Abort(f"no sample value for {name}")
            self.val[i] = Fraction(self.sample[name])
        return SReal(F.gens[i])

    def fresh(self, prefix, valfn=None):
        """auxiliary variable; valfn() gives its float value in concolic mode"""
        name = f"{prefix}!{self.nvar}"
        v = self.var(name) if self.val is None else None
        if self.val is not None:
            self.sample[name] = Fraction(repr(float(valfn()))) if valfn is not None else Fraction(0)
            v = self.var(name)
        return v

    def zvar(self, name):
        return F.Z[self.names[name]]

    def assume(self, cond):
        if isinstance(cond, (bool, np.bool_)):
            if not cond:
                raise Infeasible("assumption is false")
            return
        if self.val is not None and not cond.ev(self.val):
            raise SkipSample(str(cond.t))
        self.side.append(cond.t)

    # -- helpers that make a harness mode-agnostic
    def load(self, modname):
        from . import loader
        return loader.load(modname)

    def series(self, values, index=None):
        import pandas as pd
        return pd.Series(list(values), dtype=object, index=index)

    def array(self, values):
        a = np.empty(len(values), dtype=object)
        for i, v in enumerate(values):
            a[i] = v
        return a

    def obj(self, arr):
        """float/complex ndarray -> object ndarray (cells stay numpy scalars)"""
        arr = np.asarray(arr)
        o = np.empty(arr.shape, dtype=object)
        o[...] = arr
        return o

    # -- claims
    def eq(self, name, a, b):
        if isinstance(a, SComplex) or isinstance(b, SComplex) or isinstance(a, complex) or isinstance(b, complex):
            a, b = SComplex.of(a), SComplex.of(b)
            self.eq(name + ".re", a.re, b.re)
            self.eq(name + ".im", a.im, b.im)
            return
        if _isnan(a) or _isnan(b):
            self.claims.append((name, bool(_isnan(a) and _isnan(b)), a, b))
            return
        a2, b2 = SReal.of(a), SReal.of(b)
        if a2 is None or b2 is None:
            self.claims.append((name, bool(a == b), a, b))
            return
        self.claims.append((name, a2 == b2, a2, b2))

    def le(self, name, a, b):
        a2, b2 = SReal.of(a), SReal.of(b)
        self.claims.append((name, a2 <= b2, a2, b2))

    def close(self, name, a, b, tol):
        """|a-b| <= tol"""
        a2, b2 = SReal.of(a), SReal.of(b)
        d = a2 - b2
        c = (d <= tol)
        c2 = (d >= -tol)
        self.claims.append((name, _and(c, c2), a2, b2))

    def true(self, name, cond):
        self.claims.append((name, cond, None, None))

    # -- solver
    def check(self, *extra, timeout_ms=None, cross=False):
        s = z3.Solver()
        s.set("timeout", timeout_ms or self.timeout_ms)
        for c in self.pc + self.side + list(extra):
            s.add(c)
        t = time.time()
        r = str(s.check())
        self.stats.tq += time.time() - t
        self.stats.q[r] = self.stats.q.get(r, 0) + 1
        m = s.model() if r == "sat" else None
        if cross and os.environ.get("SYMX_CROSSCHECK") == "cvc5" and r in ("sat", "unsat"):
            r2 = _cvc5_verdict(s.to_smt2())
            key = "cvc5_" + ("agree" if r2 == r else ("no_answer" if r2 not in ("sat", "unsat") else "DISAGREE"))
            self.stats.q[key] = self.stats.q.get(key, 0) + 1
            if r2 in ("sat", "unsat") and r2 != r:
                return "unknown", None, s          # two solvers disagree: never a verdict
        return r, m, s

    def branch(self, sb):
        cond = z3.simplify(sb.t)
        if z3.is_true(cond):
            return True
        if z3.is_false(cond):
            return False
        self.stats.branch_decisions += 1
        if self.val is not None:
            d = bool(sb.ev(self.val))
            self.pc.append(cond if d else z3.Not(cond))
            return d
        if self.pos < len(self.decisions):
            d = self.decisions[self.pos][0]
        else:
            rt, _, _ = self.check(cond)
            rf, _, _ = self.check(z3.Not(cond))
            if "unknown" in (rt, rf):
                raise Abort("solver returned unknown at a branch")
            if rt == "sat" and rf == "sat":
                d = True
                self.decisions.append([True, True])
            elif rt == "sat":
                d = True
                self.decisions.append([True, False])
            elif rf == "sat":
                d = False
                self.decisions.append([False, False])
            else:
                raise Infeasible("path condition unsatisfiable")
        self.pos += 1
        self.pc.append(cond if d else z3.Not(cond))
        return d

    def model_named(self, m):
        out = {}
        for name, i in self.names.items():
            v = m.eval(F.Z[i], model_completion=True)
            out[name] = _z3num(v)
        return out


_CVC5 = {"proc": None}


def _cvc5_verdict(smt2, tlimit_ms=5000):
    """second opinion on the SMT-LIB2 dump of a query (thorough tier), from a worker process under a hard wall-clock limit"""
    import select
    import subprocess
    try:
        p = _CVC5["proc"]
        if p is None or p.poll() is not None:
            p = subprocess.Popen([sys.executable, "-m", "symx.cvc5_worker"], stdin=subprocess.PIPE, stdout=subprocess.PIPE,
                                 cwd=os.path.dirname(os.path.dirname(os.path.abspath(__file__))))
            _CVC5["proc"] = p
        data = smt2.encode()
        p.stdin.write(b"%010d%06d" % (len(data), tlimit_ms) + data)
        p.stdin.flush()
        ready, _, _ = select.select([p.stdout], [], [], tlimit_ms / 1000.0 + 3.0)
        if not ready:
            p.kill()
            _CVC5["proc"] = None
            return "unknown"
        line = p.stdout.readline().decode().strip()
        return line if line in ("sat", "unsat", "unknown", "error") else "error"
    except Exception:      # noqa
        try:
            if _CVC5["proc"] is not None:
                _CVC5["proc"].kill()
        except Exception:      # noqa
            pass
        _CVC5["proc"] = None
        return "error"


def _z3num(v):
    if z3.is_rational_value(v):
        return str(Fraction(v.numerator_as_long(), v.denominator_as_long()))
    if z3.is_algebraic_value(v):
        a = v.approx(20)
        return str(Fraction(a.numerator_as_long(), a.denominator_as_long()))
    return str(v)


class CCtx:
    """concrete mode: floats through the real, uninstrumented modules"""
    symbolic = False
    mode = "concrete"

    def __init__(self, sample):
        self.sample = sample
        self.claims = []
        self.notes = []
        self.names = {}

    def var(self, name, lo=None, hi=None, default=None):
        if name not in self.sample:
            raise Abort(f"no sample value for {name}")
        x = float(Fraction(self.sample[name]))
        self.names[name] = x
        if (lo is not None and x < lo - 1e-12) or (hi is not None and x > hi + 1e-12):
            raise SkipSample(name)
        return np.float64(x)

    def assume(self, cond):
        if not bool(cond):
            raise SkipSample("assumption")

    def load(self, modname):
        import importlib
        import sys
        importlib.import_module(modname)
        return sys.modules[modname]

    def series(self, values, index=None):
        import pandas as pd
        vals = list(values)
        kind = complex if any(isinstance(v, complex) for v in vals) else float
        return pd.Series(vals, dtype=kind, index=index)

    def array(self, values):
        vals = list(values)
        kind = complex if any(isinstance(v, (complex, np.complexfloating)) for v in vals) else float
        return np.array(vals, dtype=kind)

    def obj(self, arr):
        return np.array(arr, copy=True)

    def eq(self, name, a, b):
        if isinstance(a, (complex, np.complexfloating)) or isinstance(b, (complex, np.complexfloating)):
            a, b = complex(a), complex(b)
            self.eq(name + ".re", a.real, b.real)
            self.eq(name + ".im", a.imag, b.imag)
            return
        if _isnan(a) or _isnan(b):
            self.claims.append((name, bool(_isnan(a) and _isnan(b)), a, b))
            return
        a, b = float(a), float(b)
        self.claims.append((name, abs(a - b) <= CTOL * max(1.0, abs(a), abs(b)), a, b))

    def le(self, name, a, b):
        a, b = float(a), float(b)
        self.claims.append((name, a <= b + CTOL * max(1.0, abs(a), abs(b)), a, b))

    def close(self, name, a, b, tol):
        a, b = float(a), float(b)
        self.claims.append((name, abs(a - b) <= tol + CTOL * max(1.0, abs(a), abs(b)), a, b))

    def true(self, name, cond):
        self.claims.append((name, bool(cond), None, None))


CTOL = 1e-7


# ------------------------------------------------------------------------------------------------ scalars
class SBool:
    def __init__(self, t, ev):
        self.t = t
        self.ev = ev

    def __bool__(self):
        return Ctx.cur.branch(self)

    def __and__(self, o):
        return _and(self, o)
    __rand__ = __and__

    def __or__(self, o):
        return _or(self, o)
    __ror__ = __or__

    def __invert__(self):
        e = self.ev
        return SBool(z3.Not(self.t), lambda v: not e(v))

    def __eq__(self, o):
        e, (ot, oe) = self.ev, _b(o)
        return SBool(self.t == ot, lambda v: bool(e(v)) == bool(oe(v)))

    def __ne__(self, o):
        e, (ot, oe) = self.ev, _b(o)
        return SBool(self.t != ot, lambda v: bool(e(v)) != bool(oe(v)))
    __hash__ = None

    def __xor__(self, o):
        return self != o
    __rxor__ = __xor__

    def __mul__(self, o):
        return SReal.ite(self, 1.0, 0.0) * o
    __rmul__ = __mul__

    def __repr__(self):
        return f"SBool({self.t})"


def _b(o):
    if isinstance(o, SBool):
        return o.t, o.ev
    c = bool(o)
    return z3.BoolVal(c), (lambda v: c)


def _and(a, b):
    if not isinstance(a, SBool) and not isinstance(b, SBool):
        return bool(a) and bool(b)
    (at, ae), (bt, be) = _b(a), _b(b)
    return SBool(z3.And(at, bt), lambda v: ae(v) and be(v))


def _or(a, b):
    if not isinstance(a, SBool) and not isinstance(b, SBool):
        return bool(a) or bool(b)
    (at, ae), (bt, be) = _b(a), _b(b)
    return SBool(z3.Or(at, bt), lambda v: ae(v) or be(v))


def implies(a, b):
    return _or(~a if isinstance(a, SBool) else (not a), b)


def all_of(conds):
    r = True
    for c in conds:
        r = _and(r, c)
    return r


def any_of(conds):
    r = False
    for c in conds:
        r = _or(r, c)
    return r


class SReal:
    __slots__ = ("v",)

    def __init__(self, v):
        self.v = v

    def __deepcopy__(self, memo):      # immutable
        return self

    def __copy__(self):
        return self

    @staticmethod
    def of(o):
        if isinstance(o, SReal):
            return o
        if isinstance(o, SBool):
            return SReal.ite(o, 1.0, 0.0)
        if isinstance(o, np.ndarray) and o.ndim == 0:
            return SReal.of(o[()])
        c = _const(o)
        return None if c is None else SReal(c)

    @staticmethod
    def ite(c, a, b):
        return SReal.of(a) if bool(c) else SReal.of(b)

    def num(self):
        return poly_to_z3(self.v.numer)

    def den(self):
        return poly_to_z3(self.v.denom)

    def is_const(self):
        return self.v.numer.is_ground and self.v.denom.is_ground

    def const(self):
        n = self.v.numer
        d = self.v.denom
        nn = Fraction(0) if n.is_zero else Fraction(int(n.coeff(1).numerator), int(n.coeff(1).denominator))
        dd = Fraction(int(d.coeff(1).numerator), int(d.coeff(1).denominator))
        return nn / dd

    def evalf(self, val):
        d = _peval(self.v.denom, val)
        if d == 0:
            raise SkipSample("denominator vanishes at sample")
        return _peval(self.v.numer, val) / d

    def _bin(self, o, f):
        if isinstance(o, (complex, np.complexfloating, SComplex)):
            return NotImplemented
        if _isnan(o):
            return float("nan")
        if isinstance(o, (float, np.floating)) and math.isinf(float(o)):
            return NotImplemented
        o2 = SReal.of(o)
        if o2 is None:
            return NotImplemented
        return SReal(f(self.v, o2.v))

    def __add__(self, o):
        if isinstance(o, (complex, np.complexfloating)):
            return SComplex(self, 0.0) + o
        return self._bin(o, lambda a, b: a + b)
    __radd__ = __add__

    def __sub__(self, o):
        if isinstance(o, (complex, np.complexfloating)):
            return SComplex(self, 0.0) - o
        return self._bin(o, lambda a, b: a - b)

    def __rsub__(self, o):
        if isinstance(o, (complex, np.complexfloating)):
            return o - SComplex(self, 0.0)
        return self._bin(o, lambda a, b: b - a)

    def __mul__(self, o):
        if isinstance(o, (complex, np.complexfloating)):
            return SComplex(self * float(o.real), self * float(o.imag))
        if isinstance(o, SBool):
            return o * self
        if isinstance(o, Rad):
            return o * self
        return self._bin(o, lambda a, b: a * b)
    __rmul__ = __mul__

    def _nz(self):
        if self.v.numer.is_ground:
            if self.v.numer.is_zero:
                raise ZeroDivisionError("division by symbolic exact zero")
            return
        c = Ctx.cur
        if c.val is not None and self.evalf(c.val) == 0:
            raise SkipSample("division by zero at sample")
        c.side.append(self.num() != 0)

    def __truediv__(self, o):
        if isinstance(o, (complex, np.complexfloating)):
            return SComplex(self, 0.0) / o
        if isinstance(o, SComplex):
            return NotImplemented
        if _isnan(o):
            return float("nan")
        o2 = SReal.of(o)
        if o2 is None:
            return NotImplemented
        if o2.v.numer.is_zero:
            # IEEE: x/0 -> inf/nan; symbolic numerator cannot decide the sign -> abort loudly
            raise Abort("division of a symbolic value by exact zero")
        o2._nz()
        return SReal(self.v / o2.v)

    def __rtruediv__(self, o):
        if isinstance(o, (complex, np.complexfloating)):
            return o / SComplex(self, 0.0)
        if _isnan(o):
            return float("nan")
        o2 = SReal.of(o)
        if o2 is None:
            return NotImplemented
        self._nz()
        return SReal(o2.v / self.v)

    def __floordiv__(self, o):
        raise Abort("floor division on a symbolic value")

    def __neg__(self):
        return SReal(-self.v)

    def __pos__(self):
        return self

    def __pow__(self, n):
        if isinstance(n, SReal) and n.is_const():
            n = float(n.const())
        if isinstance(n, (int, np.integer)) or (isinstance(n, (float, np.floating)) and float(n) == int(n)):
            n = int(n)
            if n >= 0:
                return SReal(self.v ** n)
            self._nz()
            return SReal(F.one / self.v ** (-n))
        if isinstance(n, (float, np.floating)) and float(n) == 0.5:
            return self.sqrt()
        hook = Ctx.cur.memo.get("__pow_hook__")
        if hook is not None:
            return hook(self, n)
        raise Abort(f"pow with exponent {n!r}")

    def __rpow__(self, base):
        if self.is_const():
            return base ** float(self.const())
        hook = Ctx.cur.memo.get("__rpow_hook__")
        if hook is not None:
            return hook(base, self)
        raise Abort("symbolic exponent")

    def __abs__(self):
        return self if bool(self >= 0) else -self

    def sqrt(self):
        ctx = Ctx.cur
        key = ("sqrt", self.v)
        memo = ctx.memo
        if key in memo:
            return memo[key]
        if self.is_const():
            c = self.const()
            if c < 0:
                return float("nan")
            r = _rat_sqrt(c)
            if r is not None:
                return SReal(_q(r))
            return SReal(_q(Fraction(repr(math.sqrt(float(c))))))
        r = _exact_sqrt(self)
        if r is None and memo.get("__aux__"):
            red = reduce_aux(self)
            if red.v != self.v:
                r = _exact_sqrt(red)
        if r is not None:
            memo[key] = r
            return r
        me = self
        y = ctx.fresh("sqrt", (lambda: math.sqrt(max(0.0, float(me.evalf(ctx.val))))))
        ctx.side += [y.num() >= 0, y.num() * y.num() * self.den() == self.num()]
        memo.setdefault("__aux__", []).append((ctx.nvar - 1, self.v))
        memo[key] = y
        return y

    def _sgn(self):
        return poly_to_z3(self.v.numer * self.v.denom)

    def _cmp(self, o, op):
        if _isnan(o):
            return op == "ne"
        if isinstance(o, (float, np.floating)) and math.isinf(float(o)):
            pos = float(o) > 0
            return {"lt": pos, "le": pos, "gt": not pos, "ge": not pos, "eq": False, "ne": True}[op]
        if isinstance(o, (SComplex, complex, np.complexfloating)):
            return NotImplemented
        o2 = SReal.of(o)
        if o2 is None:
            return NotImplemented
        d = SReal(self.v - o2.v)
        if d.is_const():
            c = d.const()
            return {"lt": c < 0, "le": c <= 0, "gt": c > 0, "ge": c >= 0, "eq": c == 0, "ne": c != 0}[op]
        z = z3.RealVal(0)
        if op in ("eq", "ne"):
            n = d.num()
            if op == "eq":
                return SBool(n == z, lambda v: d.evalf(v) == 0)
            return SBool(n != z, lambda v: d.evalf(v) != 0)
        s = d._sgn()
        t = {"lt": s < z, "le": s <= z, "gt": s > z, "ge": s >= z}[op]
        f = {"lt": lambda v: d.evalf(v) < 0, "le": lambda v: d.evalf(v) <= 0,
             "gt": lambda v: d.evalf(v) > 0, "ge": lambda v: d.evalf(v) >= 0}[op]
        return SBool(t, f)

    def __lt__(self, o): return self._cmp(o, "lt")
    def __le__(self, o): return self._cmp(o, "le")
    def __gt__(self, o): return self._cmp(o, "gt")
    def __ge__(self, o): return self._cmp(o, "ge")
    def __eq__(self, o): return self._cmp(o, "eq")
    def __ne__(self, o): return self._cmp(o, "ne")
    __hash__ = None

    def __bool__(self):
        return bool(self != 0)

    @property
    def real(self): return self
    @property
    def imag(self): return SReal(F.zero)
    def conjugate(self): return self
    def conj(self): return self

    def __float__(self):
        if self.is_const():
            return float(self.const())
        raise Abort("concretisation of a symbolic value via __float__")

    def __int__(self):
        if self.is_const() and self.const().denominator == 1:
            return int(self.const())
        raise Abort("concretisation of a symbolic value via __int__")
    __index__ = __int__

    def __round__(self, n=None):
        raise Abort("round() on a symbolic value")

    def __repr__(self):
        return f"SReal({self.v.as_expr()})"


def _rat_sqrt(c):
    c = Fraction(int(c.numerator), int(c.denominator))
    if c < 0:
        return None
    a, b = math.isqrt(c.numerator), math.isqrt(c.denominator)
    return Fraction(a, b) if a * a == c.numerator and b * b == c.denominator else None


def _poly_sqrt(p):
    ring = F.K.ring
    if p.is_ground:
        r = _rat_sqrt(p.coeff(1)) if not p.is_zero else Fraction(0)
        return None if r is None else ring(QQ(r.numerator, r.denominator))
    coeff, factors = p.factor_list()
    r = _rat_sqrt(coeff)
    if r is None:
        return None
    out = ring(QQ(r.numerator, r.denominator))
    for f, m in factors:
        if m % 2:
            return None
        out = out * f ** (m // 2)
    return out


def _exact_sqrt(x):
    n = _poly_sqrt(x.v.numer)
    d = _poly_sqrt(x.v.denom) if n is not None else None
    if n is None or d is None:
        return None
    return abs(SReal(F.K(n) / F.K(d)))


def _reduce_poly(p, aux):
    out = F.zero
    for mon, coef in p.terms():
        term = F.K(coef)
        for i, e in enumerate(mon):
            if e == 0:
                continue
            hit = [a for a in aux if a[0] == i]
            if hit and e >= 2:
                term = term * hit[0][1] ** (e // 2) * F.gens[i] ** (e % 2)
            else:
                term = term * F.gens[i] ** e
        out = out + term
    return out


def reduce_aux(x):
    """normal form modulo y_i^2 = arg_i for the registered square-root variables"""
    aux = Ctx.cur.memo.get("__aux__", [])
    if not aux:
        return x
    return SReal(_reduce_poly(x.v.numer, aux) / _reduce_poly(x.v.denom, aux))


class SComplex:
    __slots__ = ("re", "im")

    def __init__(self, re, im):
        self.re = SReal.of(re)
        self.im = SReal.of(im)

    def __deepcopy__(self, memo):      # immutable
        return self

    def __copy__(self):
        return self

    @staticmethod
    def of(o):
        if isinstance(o, SComplex):
            return o
        if isinstance(o, SReal):
            return SComplex(o, 0.0)
        if isinstance(o, np.ndarray) and o.ndim == 0:
            return SComplex.of(o[()])
        if isinstance(o, (complex, np.complexfloating)):
            return SComplex(float(o.real), float(o.imag))
        r = SReal.of(o)
        return None if r is None else SComplex(r, 0.0)

    real = property(lambda s: s.re)
    imag = property(lambda s: s.im)

    def conjugate(self):
        return SComplex(self.re, -self.im)
    conj = conjugate

    def __add__(self, o):
        o = SComplex.of(o)
        return NotImplemented if o is None else SComplex(self.re + o.re, self.im + o.im)
    __radd__ = __add__

    def __sub__(self, o):
        o = SComplex.of(o)
        return NotImplemented if o is None else SComplex(self.re - o.re, self.im - o.im)

    def __rsub__(self, o):
        o = SComplex.of(o)
        return NotImplemented if o is None else o - self

    def __neg__(self): return SComplex(-self.re, -self.im)
    def __pos__(self): return self

    def __mul__(self, o):
        if isinstance(o, Rad):
            return NotImplemented
        o = SComplex.of(o)
        if o is None:
            return NotImplemented
        return SComplex(self.re * o.re - self.im * o.im, self.re * o.im + self.im * o.re)
    __rmul__ = __mul__

    def __truediv__(self, o):
        o = SComplex.of(o)
        if o is None:
            return NotImplemented
        d = o.re * o.re + o.im * o.im
        n = self * o.conjugate()
        return SComplex(n.re / d, n.im / d)

    def __rtruediv__(self, o):
        o = SComplex.of(o)
        return NotImplemented if o is None else o / self

    def __pow__(self, n):
        if float(n) != int(n):
            raise Abort("complex pow with non-integer exponent")
        n = int(n)
        r = SComplex(1.0, 0.0)
        for _ in range(abs(n)):
            r = r * self
        return r if n >= 0 else 1 / r

    def __abs__(self):
        return (self.re * self.re + self.im * self.im).sqrt()

    def __eq__(self, o):
        o = SComplex.of(o)
        if o is None:
            return NotImplemented
        return _and(self.re == o.re, self.im == o.im)

    def __ne__(self, o):
        r = self == o
        return (not r) if isinstance(r, bool) else ~r
    __hash__ = None

    def __bool__(self):
        return bool(self != 0)

    def __complex__(self):
        return complex(float(self.re), float(self.im))

    def __repr__(self):
        return f"SComplex({self.re.v.as_expr()}, {self.im.v.as_expr()})"


def issym(x):
    return isinstance(x, (SReal, SComplex, SBool))


# ------------------------------------------------------------------------------------------------ angles
def DEG():
    return SReal(F.PI / 180)


class Rad:
    """a quantity in radians whose value in degrees is the SReal .deg (tracks deg2rad/rad2deg exactly)"""
    __array_priority__ = 3000

    def __init__(self, deg):
        self.deg = SReal.of(deg)

    def __neg__(self): return Rad(-self.deg)

    @staticmethod
    def _wrap(val):
        """val: SReal in radians. A value that no longer contains pi is a plain number (e.g. degrees after * 180 / pi)."""
        v = val.v
        has_pi = any(mon[0] for mon in v.numer.to_dict()) or any(mon[0] for mon in v.denom.to_dict())
        return Rad(val / DEG()) if has_pi else val

    def __mul__(self, o):
        if isinstance(o, (complex, np.complexfloating)):
            if o.real != 0:
                raise Abort("Rad * complex with real part")
            return SComplex(0.0, self.deg * DEG() * float(o.imag))
        return Rad._wrap(self.value() * o)
    __rmul__ = __mul__

    def __add__(self, o):
        return Rad(self.deg + (o.deg if isinstance(o, Rad) else SReal.of(o) / DEG()))
    __radd__ = __add__

    def __sub__(self, o):
        return Rad(self.deg - (o.deg if isinstance(o, Rad) else SReal.of(o) / DEG()))

    def __rsub__(self, o):
        return Rad((o.deg if isinstance(o, Rad) else SReal.of(o) / DEG()) - self.deg)

    def __truediv__(self, o): return Rad._wrap(self.value() / o)

    def value(self):
        return self.deg * DEG()


def _atoms(deg):
    """split a degrees term into (const_deg, [(atom_key, int_power, atom_term)])"""
    v = deg.v
    if not v.denom.is_ground:
        return Fraction(0), [(("atom", v), 1, deg)]
    den = v.denom.coeff(1)
    den = Fraction(int(den.numerator), int(den.denominator))
    const = Fraction(0)
    atoms = []
    for mon, coef in v.numer.terms():
        c = Fraction(int(coef.numerator), int(coef.denominator)) / den
        if all(e == 0 for e in mon):
            const = c
            continue
        m = F.one
        for i, e in enumerate(mon):
            m = m * F.gens[i] ** e
        if c.denominator == 1:
            atoms.append((("atom", m), int(c), SReal(m)))
        else:
            mm = m * _q(c)
            atoms.append((("atom", mm), 1, SReal(mm)))
    return const, atoms


_EXACT_PHASORS = {0: (1, 0), 90: (0, 1), 180: (-1, 0), 270: (0, -1)}


def _const_phasor(const):
    c = const % 360
    if c in _EXACT_PHASORS:
        re, im = _EXACT_PHASORS[c]
        return SComplex(float(re), float(im))
    r = math.radians(float(const))
    return SComplex(math.cos(r), math.sin(r))


def unit(deg):
    """unit phasor exp(j*deg*pi/180); symbolic atoms get the rational parametrisation of the circle"""
    if not isinstance(deg, SReal):
        deg = SReal.of(deg)
    ctx = Ctx.cur
    const, atoms = _atoms(deg)
    r = _const_phasor(const)
    for key, power, term in atoms:
        if key not in ctx.memo:
            tt = term
            u = ctx.fresh("tanhalf", lambda: math.tan(math.radians(float(tt.evalf(ctx.val))) / 2))
            d = 1 + u * u
            ctx.memo[key] = SComplex((1 - u * u) / d, 2 * u / d)
            if ctx.memo.get("__link_tanhalf__") and term.v.denom.is_ground:
                # sound for |angle| < 180 degrees (the harness that sets the flag bounds its angles): tan(angle/2) has the sign of the angle,
                # so a counterexample cannot pair a non-zero phasor parameter with a zero angle (it would not replay)
                a, b = term.num(), u.num()
                ctx.side += [z3.Implies(a > 0, b > 0), z3.Implies(a < 0, b < 0), z3.Implies(a == 0, b == 0)]
        ph = ctx.memo[key]
        if power < 0:
            ph = ph.conjugate()
            power = -power
        for _ in range(power):
            r = r * ph
    return r


def polar(vm, theta_deg):
    """V = vm * exp(j theta): abs() is exact and angle() recovers theta"""
    ph = unit(theta_deg)
    V = SComplex(vm * ph.re, vm * ph.im)
    Ctx.cur.memo.setdefault("__polar__", []).append((V, SReal.of(vm), SReal.of(theta_deg)))
    return V


def arctan_deg(t):
    if t.is_const():
        return SReal.of(math.degrees(math.atan(float(t.const()))))
    ctx = Ctx.cur
    key = ("arctan", t.v)
    if key in ctx.memo:
        return ctx.memo[key]
    a = ctx.fresh("arctan_deg", lambda: math.degrees(math.atan(float(t.evalf(ctx.val)))))
    n = (1 + t * t).sqrt()
    ctx.memo[("atom", a.v)] = SComplex(1 / n, t / n)
    ctx.memo[key] = a
    return a


def arcsin_deg(t):
    if t.is_const():
        return SReal.of(math.degrees(math.asin(float(t.const()))))
    ctx = Ctx.cur
    key = ("arcsin", t.v)
    if key in ctx.memo:
        return ctx.memo[key]
    a = ctx.fresh("arcsin_deg", lambda: math.degrees(math.asin(float(t.evalf(ctx.val)))))
    ctx.memo[("atom", a.v)] = SComplex((1 - t * t).sqrt(), t)
    ctx.memo[key] = a
    return a


def angle_deg(z):
    """degrees of the argument of a symbolic complex value"""
    ctx = Ctx.cur
    for V, vm, th in ctx.memo.get("__polar__", []):
        if V.re.v == z.re.v and V.im.v == z.im.v:
            return th
    key = ("angle", z.re.v, z.im.v)
    if key in ctx.memo:
        return ctx.memo[key]
    a = ctx.fresh("angle_deg", lambda: math.degrees(math.atan2(float(z.im.evalf(ctx.val)), float(z.re.evalf(ctx.val)))))
    n = abs(z)
    ctx.memo[("atom", a.v)] = SComplex(z.re / n, z.im / n)
    ctx.memo[key] = a
    return a


def ufun(name, x, fn, axioms=None):
    """uninterpreted function application y = name(x): one fresh variable per distinct canonical argument,
    congruence is automatic (memo on the canonical term); `axioms(ctx, x, y, previous_apps)` adds side conditions."""
    ctx = Ctx.cur
    x = SReal.of(x)
    if x.is_const():
        return SReal.of(fn(float(x.const())))
    apps = ctx.memo.setdefault(("ufun", name), [])
    for (xx, yy) in apps:
        if xx.v == x.v:
            return yy
    y = ctx.fresh(name, lambda: fn(float(x.evalf(ctx.val))))
    for (xx, yy) in apps:     # congruence for syntactically different but possibly equal arguments
        ctx.side.append(z3.Implies((x - xx).num() == 0, (y - yy).num() == 0))
    if axioms is not None:
        axioms(ctx, x, y, list(apps))
    apps.append((x, y))
    return y


# ------------------------------------------------------------------------------------------------ exploration
def _claim_term(c):
    if isinstance(c, SBool):
        return c.t
    return z3.BoolVal(bool(c))


def explore(fn, timeout_ms=20000, max_paths=2000, raises=(), margin_models=True):
    """exhaustive DFS. returns (obligations, summary).
    obligation: dict(name, path, verdict in {unsat,sat,unknown}, canonical_zero, model)"""
    decisions = []
    obligations = []
    stats = Stats()
    npaths = 0
    aborted = []
    documented_raises = 0
    nvars_max = 0
    side_conditions = 0
    while True:
        ctx = Ctx(decisions, timeout_ms, stats=stats)
        Ctx.cur = ctx
        try:
            try:
                fn(ctx)
            except raises as e:
                documented_raises += 1
                ctx.claims = [c for c in ctx.claims]   # claims made before the documented raise still count
                ctx.notes.append(f"documented raise {type(e).__name__}")
            npaths += 1
            r, _, _ = ctx.check()
            if r != "sat":
                obligations.append(dict(name="__vacuity__", path=npaths, verdict=("unknown" if r == "unknown" else "vacuous"),
                                        canonical_zero=False, model=None))
            seen = {}
            for name, claim, lhs, rhs in ctx.claims:
                if name in seen:
                    seen[name] += 1
                    name = f"{name}#{seen[name]}"
                else:
                    seen[name] = 0
                t = _claim_term(claim)
                ts = z3.simplify(t)
                cz = z3.is_true(ts)
                if cz:
                    stats.q["canonical_zero"] += 1
                r, m, _ = ctx.check(z3.Not(t), cross=True)
                model = None
                if r == "sat":
                    model = ctx.model_named(m)
                    if margin_models and lhs is not None and rhs is not None and isinstance(lhs, SReal) and isinstance(rhs, SReal):
                        # prefer a robust counterexample (clear numerical margin) for replay
                        d = lhs - rhs
                        dn, dd = d.num(), d.den()
                        r2, m2, _ = ctx.check(z3.Not(t), dn * dn >= z3.RealVal("1/10000") * dd * dd, timeout_ms=5000)
                        if r2 == "sat":
                            model = ctx.model_named(m2)
                obligations.append(dict(name=name, path=npaths, verdict=r, canonical_zero=bool(cz), model=model))
        except Abort as e:
            aborted.append(f"path {npaths + 1}: {e}")
        except Infeasible:
            pass
        except SkipSample:
            pass
        except Exception as e:
            # the code under test raised something it does not document on a feasible path: a candidate violation, to be
            # confirmed by replaying a model of the path on the real code
            npaths += 1
            r, m, _ = ctx.check()
            if r == "sat":
                obligations.append(dict(name=f"no_undocumented_exception/{type(e).__name__}", path=npaths, verdict="sat", canonical_zero=False,
                                        model=ctx.model_named(m), exception=f"{type(e).__name__}: {e}"))
            elif r == "unknown":
                aborted.append(f"path {npaths}: {type(e).__name__} on a path of unknown feasibility")
        finally:
            Ctx.cur = None
            nvars_max = max(nvars_max, ctx.nvar)
            side_conditions = max(side_conditions, len(ctx.side))
        decisions = ctx.decisions
        while decisions and not decisions[-1][1]:
            decisions.pop()
        if not decisions:
            break
        if npaths >= max_paths:
            aborted.append(f"path budget {max_paths} exhausted")
            break
        decisions[-1] = [not decisions[-1][0], False]
    summary = dict(paths=npaths, branch_decisions=stats.branch_decisions, queries=dict(stats.q), solver_s=round(stats.tq, 3),
                   aborted=aborted, documented_raises=documented_raises, nvars=nvars_max, side_conditions=side_conditions)
    return obligations, summary


def run_concolic(fn, sample, raises=()):
    """one symbolic run steered by a concrete valuation; returns [(name, lhs_value, rhs_value, holds)]"""
    ctx = Ctx(None, valuation=sample)
    Ctx.cur = ctx
    try:
        try:
            fn(ctx)
        except raises:
            pass
        out = []
        for name, claim, lhs, rhs in ctx.claims:
            lv = float(lhs.evalf(ctx.val)) if isinstance(lhs, SReal) else lhs
            rv = float(rhs.evalf(ctx.val)) if isinstance(rhs, SReal) else rhs
            holds = claim.ev(ctx.val) if isinstance(claim, SBool) else bool(claim)
            out.append((name, lv, rv, holds))
        return out
    finally:
        Ctx.cur = None


def run_concrete(fn, sample, raises=()):
    ctx = CCtx(sample)
    try:
        fn(ctx)
    except raises:
        pass
    return [(n, a, b, ok) for (n, ok, a, b) in ctx.claims]
