from .core import *      # noqa
from .core import _and, _or
from . import shim, loader
from .loader import load
