"""second-opinion worker: reads length-prefixed SMT-LIB2 queries on stdin, answers one line per query (cvc5 Python API).
Kept in a separate process so that the caller can enforce a hard wall-clock limit (cvc5's tlimit-per is not checked
inside some nonlinear preprocessing passes)."""
import sys


def verdict(smt2, tlimit_ms):
    try:
        import cvc5
        slv = cvc5.Solver()
        slv.setOption("tlimit-per", str(tlimit_ms))
        slv.setLogic("QF_NRA")
        ip = cvc5.InputParser(slv)
        ip.setStringInput(cvc5.InputLanguage.SMT_LIB_2_6, smt2, "q")
        sm = ip.getSymbolManager()
        res = "unknown"
        while True:
            cmd = ip.nextCommand()
            if cmd.isNull():
                break
            out = str(cmd.invoke(slv, sm)).strip()
            if out in ("sat", "unsat", "unknown"):
                res = out
            elif "error" in out.lower():
                return "error"
        return res
    except Exception:      # noqa
        return "error"


def main():
    inp, out = sys.stdin.buffer, sys.stdout.buffer
    while True:
        head = inp.read(16)
        if len(head) < 16:
            return
        n, tl = int(head[:10]), int(head[10:])
        data = inp.read(n).decode()
        out.write((verdict(data, tl) + "\n").encode())
        out.flush()


if __name__ == "__main__":
    main()
