"""Instrumenting loader: private, rewritten copies of the repository's modules, from the current source."""
import ast
import hashlib
import importlib
import importlib.util
import inspect
import sys
import types

import numpy as np

from . import shim

_loaded = {}
REWRITES = ["R1 .astype(T) -> symx.astype (symbolic cells kept)", "R2 numpy names -> NaN-faithful proxy, object allocators",
            "R3 scipy.sparse constructors -> dense object matrix", "R4 numba jit decorators removed",
            "R5 float/complex ndarray results -> object dtype"]


class _Rewrite(ast.NodeTransformer):
    def _strip(self, node):
        self.generic_visit(node)
        keep = []
        for d in node.decorator_list:
            f = d.func if isinstance(d, ast.Call) else d
            nm = f.id if isinstance(f, ast.Name) else (f.attr if isinstance(f, ast.Attribute) else "")
            if nm in ("jit", "njit", "vectorize", "guvectorize"):
                continue
            keep.append(d)
        node.decorator_list = keep
        return node

    visit_FunctionDef = _strip

    def visit_Call(self, node):
        self.generic_visit(node)
        if isinstance(node.func, ast.Attribute) and node.func.attr == "astype":
            return ast.copy_location(
                ast.Call(func=ast.Attribute(value=ast.Name(id="__sx__", ctx=ast.Load()), attr="astype", ctx=ast.Load()),
                         args=[node.func.value] + node.args, keywords=node.keywords), node)
        return node


def origin(modname):
    spec = importlib.util.find_spec(modname)
    return spec.origin


def _wrap_np_func(v):
    def wrapped(*a, **kw):
        return shim.to_obj(v(*a, **kw))
    wrapped.__name__ = getattr(v, "__name__", "np_func")
    return wrapped


def load(modname, extra=None):
    """instrumented private copy of a repository module, built from the current source file"""
    if modname in _loaded:
        return _loaded[modname]
    spec = importlib.util.find_spec(modname)
    path = spec.origin
    src = open(path).read()
    tree = _Rewrite().visit(ast.parse(src, path))
    ast.fix_missing_locations(tree)
    code = compile(tree, path, "exec")
    mod = types.ModuleType("_sx_." + modname)
    mod.__file__ = path
    mod.__package__ = modname.rpartition(".")[0]
    mod.__dict__["__sx__"] = shim
    mod.__dict__["__name__"] = modname          # loggers, relative imports
    exec(code, mod.__dict__)
    proxy = shim.NP()
    _loaded[modname] = mod
    import scipy.sparse as _sp
    for k, v in list(mod.__dict__.items()):
        if k.startswith("__"):
            continue
        if v is np:
            mod.__dict__[k] = proxy
        elif k in shim.NUMPY_FUNCS and getattr(np, k, None) is v:
            mod.__dict__[k] = getattr(proxy, k)
        elif k in ("c_", "r_") and getattr(np, k, None) is v:
            mod.__dict__[k] = getattr(proxy, k)
        elif k in shim.SPARSE_NAMES and (getattr(_sp, k, None) is v or (isinstance(v, type) and v.__module__.startswith("scipy.sparse"))):
            mod.__dict__[k] = shim.SPARSE_NAMES[k]
        elif callable(v) and getattr(np, k, None) is v and not isinstance(v, type):
            mod.__dict__[k] = _wrap_np_func(v)
    for k, v in list(mod.__dict__.items()):
        if k.startswith("__"):
            continue
        f = getattr(v, "py_func", v)
        owner = getattr(f, "__module__", None)
        if isinstance(f, types.FunctionType) and owner and owner.startswith("pandapower.") and owner != modname \
                and f.__code__.co_filename != path:
            try:
                dep = load(owner)
                if hasattr(dep, f.__name__):
                    mod.__dict__[k] = getattr(dep, f.__name__)
            except Exception as e:   # pragma: no cover
                print("symx.loader: dependency", owner, "not instrumented:", repr(e), file=sys.stderr)
        elif isinstance(v, types.ModuleType) and v.__name__.startswith("pandapower.") and not hasattr(v, "__path__"):
            try:
                mod.__dict__[k] = load(v.__name__)
            except Exception as e:   # pragma: no cover
                print("symx.loader: module", v.__name__, "not instrumented:", repr(e), file=sys.stderr)
    if extra:
        mod.__dict__.update(extra)
    return mod


def reset():
    _loaded.clear()


def describe(functions):
    """[(module, qualname)] -> evidence records module:function:first line:sha256 of the current source text"""
    out = []
    for modname, qual in functions:
        try:
            importlib.import_module(modname)
            m = sys.modules[modname]
            obj = m
            for part in qual.split("."):
                obj = getattr(obj, part)
            obj = getattr(obj, "py_func", obj)
            src, line = inspect.getsourcelines(obj)
            out.append(f"{modname}:{qual}:{line}:sha256={hashlib.sha256(''.join(src).encode()).hexdigest()[:16]}")
        except Exception as e:
            out.append(f"{modname}:{qual}:unresolved({type(e).__name__})")
    return out
