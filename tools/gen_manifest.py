#!/usr/bin/env python3
"""Regenerates MANIFEST.json from the harness modules present under harness/ (run from /verif)."""
import importlib
import json
import os
import sys

ROOT = os.path.dirname(os.path.dirname(os.path.abspath(__file__)))
sys.path.insert(0, ROOT)
NA = {
    "C07": "supply/unsupplied classification is graph reachability over concrete integer indices (scipy.csgraph, pandas masks, networkx); once the structure is fixed no symbolic quantity remains, so a solver would only enumerate concrete topologies - that is not solver-based checking (DESIGN.md C07)",
    "C09": "history dependence lives in cached numeric state and in Newton's convergence from a previous solution; there is no loop-free kernel to encode, and bounded concrete histories would be testing (DESIGN.md C09)",
    "C20": "save/load is json/pandas/openpyxl/sqlite3/pickle C code at every step; CrossHair realises symbolic strings and floats at the first boundary (DESIGN.md C20)",
    "C22": "referential integrity is a statement about integer keys hashed and sorted inside pandas (C code); keys cannot be symbolic and with concrete keys nothing is left to a solver (DESIGN.md C22)",
    "C27": "group membership is lists inside DataFrame cells keyed by concrete indices; set semantics over pandas isin/hashing cannot take symbolic members (DESIGN.md C27)",
    "C28": "ward/xward/REI equivalents are Schur complements via LAPACK/SuperLU wrapped in table edits and validated by full Newton power flows; neither is encodable (DESIGN.md C28)",
}
PENDING = "check not built yet in this tree (planned in DESIGN.md section 3); not claimed until its harness discharges every obligation without unknown"


def main():
    props = [json.loads(l) for l in open(os.path.join(ROOT, "properties.jsonl"))]
    checks, na, served = [], [], []
    for p in props:
        pid = p["id"]
        path = os.path.join(ROOT, "harness", pid.lower() + ".py")
        if pid in NA and not os.path.exists(path):
            na.append(dict(property_id=pid, reason=NA[pid]))
            continue
        if not os.path.exists(path):
            na.append(dict(property_id=pid, reason=PENDING))
            continue
        hm = importlib.import_module(f"harness.{pid.lower()}")
        if getattr(hm, "WITHDRAWN", None):
            na.append(dict(property_id=pid, reason=hm.WITHDRAWN))
            continue
        served.append(pid)
        checks.append(dict(
            property_id=pid,
            quick_cmd=f"./check {pid} --tier quick",
            thorough_cmd=f"./check {pid} --tier thorough",
            evidence_file=f"/verif/evidence/{pid}.json",
            replay_cmd_template=f"./check {pid} --replay {{path}}",
            engine=getattr(hm, "ENGINE", "symx"),
            level_claimed=dict(category=getattr(hm, "LEVEL", "model_checking"), text=hm.LEVEL_TEXT, design_ref=f"DESIGN.md section 3, {pid}"),
            level_note=hm.LEVEL_NOTE,
            technique=getattr(hm, "TECHNIQUE", "symbolic execution of the real numpy/pandas code (SYMX) + z3 nonlinear real arithmetic; counterexamples replayed on the uninstrumented code"),
        ))
    man = dict(
        version=1,
        setup_cmd="./setup.sh",
        hooks=dict(guard="E2NIEE_PANDAPOWER_VERIF", enable="no source hooks are needed: kernels are loaded from /repo's current source by the instrumenting loader (symx/loader.py) and stubs are rebound in the private copies", 
                   baseline_off_cmd="cd /repo && /venv/bin/python -m pytest -ra -q -p no:cacheprovider --timeout=900 --continue-on-collection-errors",
                   source_commits=[], add_only=True),
        engines=[dict(name="symx", path="/verif/symx", serves_properties=served,
                      kind_free_text="symbolic execution of the repository's real numpy/pandas functions on object arrays of canonical rational functions (sympy FracField as normaliser), path forking at bool coercion, obligations decided by z3 5.1 (QF_NRA); encoder validated against the uninstrumented code on every run; counterexamples replayed concretely"),
                 dict(name="crosshair", path="/verif/harness/crosshair", serves_properties=[c for c in served if c in ("C30", "C25", "C17")],
                      kind_free_text="CrossHair 0.0.110 (symbolic execution of Python with z3) on pure-Python dict/list kernels")],
        checks=checks,
        notes="Every claim is bounded: the bounds, stubs and what lies outside are in each evidence file (coverage.bounds, .stubs, .outside_claim) and in DESIGN.md. Exit 3 = inconclusive (never a verdict). known_findings.json lists recorded defects and fixed ones.",
        not_applicable=na,
    )
    with open(os.path.join(ROOT, "MANIFEST.json"), "w") as f:
        json.dump(man, f, indent=1)
    print("claimed", served, "n/a", [x["property_id"] for x in na])


if __name__ == "__main__":
    main()
