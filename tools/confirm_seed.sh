#!/bin/bash
# usage: tools/confirm_seed.sh <ID> <worktree> <test paths...> : confirms demo fails with / passes without the change, tests pass with it; stores under /verif/seeded/<name>
ID=$1; WT=$2; shift 2
NAME=${SEEDNAME:-$ID}
cd $WT || exit 9
export PYTHONPATH=$WT
git diff -- pandapower > /tmp/confirm_$NAME.diff
[ -s /tmp/confirm_$NAME.diff ] || cp _seed/patch.diff /tmp/confirm_$NAME.diff
/venv/bin/python _seed/demo.py > /tmp/confirm_$NAME.with 2>&1; with=$?
git apply -R /tmp/confirm_$NAME.diff || { echo "cannot revert"; exit 9; }
/venv/bin/python _seed/demo.py > /tmp/confirm_$NAME.without 2>&1; without=$?
git apply /tmp/confirm_$NAME.diff
tests=$(timeout 3000 /venv/bin/python -m pytest -q -p no:cacheprovider -n 10 -W ignore "$@" 2>&1 | tail -1)
echo "demo with change exit=$with, without exit=$without; tests with change: $tests"
mkdir -p /verif/seeded/$NAME
cp /tmp/confirm_$NAME.diff /verif/seeded/$NAME/patch.diff; cp _seed/demo.py /verif/seeded/$NAME/demo.py
python3 - <<PY
import json
m=json.load(open("$WT/_seed/meta.json"))
m["confirmed_by_maintainer_of_verif"]={"demo_exit_with_change":$with,"demo_exit_without_change":$without,"tests":"$*","tests_result":"""$tests"""}
json.dump(m,open("/verif/seeded/$NAME/meta.json","w"),indent=1)
PY
