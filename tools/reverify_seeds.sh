#!/bin/bash
# re-runs every confirmed seeded change against the current checks (quick tier): applies seeded/<name>/patch.diff to /repo, runs the check of
# its property, restores /repo. One line per seed: <name> <exit code of the check> <number of VIOLATION lines> | "patch does not apply".
# /repo must be clean and nothing else may use it meanwhile. Optional arguments: seed names (default: all).
cd "$(dirname "$0")/.."
names=${@:-$(ls seeded | grep '^C')}
for n in $names; do
  P=$(python3 -c "import json;print(json.load(open('seeded/$n/meta.json'))['property'])")
  if [ -n "$(git -C /repo status --porcelain --untracked-files=no)" ]; then echo "$n repo-not-clean"; exit 9; fi
  if ! git -C /repo apply --check /verif/seeded/$n/patch.diff 2>/dev/null; then echo "$n patch-does-not-apply"; continue; fi
  git -C /repo apply /verif/seeded/$n/patch.diff
  s=$(date +%s)
  timeout 1500 ./check $P --tier quick > /tmp/reverify_$n.log 2>&1; rc=$?
  git -C /repo checkout -- .
  echo "$n property=$P exit=$rc violations=$(grep -c '^VIOLATION' /tmp/reverify_$n.log) wall=$(( $(date +%s)-s ))s first=$(grep -m1 '^  signature' /tmp/reverify_$n.log | cut -d' ' -f3 | cut -c1-140)"
done
