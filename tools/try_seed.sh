#!/bin/bash
# usage: tools/try_seed.sh <PROPERTY> <patch.diff> [tier]   -- applies the seeded change to /repo, runs the check, restores /repo
set -u
P=$1; PATCH=$2; TIER=${3:-quick}
cd /repo || exit 9
if [ -n "$(git status --porcelain --untracked-files=no)" ]; then echo "repo not clean"; exit 9; fi
git apply "$PATCH" || { echo "patch does not apply"; exit 9; }
cd /verif && ./check $P --tier $TIER > /tmp/try_seed_$P.log 2>&1; rc=$?
cd /repo && git checkout -- .
git -C /verif checkout -- evidence/$P.json 2>/dev/null   # the trial run must not replace the clean-tree evidence
echo "exit=$rc"; grep -c "^VIOLATION" /tmp/try_seed_$P.log; grep "^VIOLATION\|^INCONCLUSIVE\|^  signature" /tmp/try_seed_$P.log | head -${4:-8} | cut -c1-260
