import json, sys
props={json.loads(l)['id']:json.loads(l) for l in open('/verif/properties.jsonl')}
TEMPLATE = """You are helping evaluate a verification framework by writing a realistic *regression* (a behaviour-breaking code change) for the open-source Python library pandapower (power-system analysis on pandas tables).

Work ONLY inside this scratch git worktree of the library: {wt}  (do not touch /repo, do not read or write anything under /verif). To run Python against the worktree code you MUST set PYTHONPATH, e.g. `cd {wt} && PYTHONPATH={wt} /venv/bin/python your_script.py` and confirm once with `python -c "import pandapower; print(pandapower.__file__)"` that it prints a path under {wt}. Tests run with `cd {wt} && PYTHONPATH={wt} /venv/bin/python -m pytest -q -p no:cacheprovider -n 8 <paths>`. There is no network access.

The property the library is supposed to satisfy:

"{title}. {statement}" (Quantified over: {quant})

Relevant code (starting points): {files}. Mechanisms meant to make it hold: {mech}.
{extra}
Your task: make ONE small source change (a few lines, in the library code, not in tests) that BREAKS this property while (a) the package still imports, and (b) the existing test suite still passes — run at least {tests} (and any other test file that exercises the code you touch; grep for it) and confirm they pass with your change. The change must be SUBTLE: it should need something specific to manifest (a particular combination of inputs or options, a particular order or multi-step sequence of calls, an unusual but legal value, a crash/exception at a particular point, or two code sites that each look fine alone) — not something the first ordinary use would expose. Think of plausible programmer mistakes (wrong key, wrong mask, sign, `>` vs `>=`, off-by-one, a column taken from the wrong table, a default used instead of the argument, a missing copy, a state restore skipped on one path, `or` vs `and`).

Deliver, in the directory {wt}/_seed/ :
 1. `patch.diff` — output of `git diff -- pandapower` for your source change (source files only).
 2. `demo.py` — a small standalone program using the PUBLIC API only that checks the property against an independent expectation computed in the script, exits 0 when the property holds and exits 1 (printing what differs) when it is violated. It must exit 1 with your change applied and exit 0 on the original code (verify both: `git apply -R _seed/patch.diff`, run, `git apply _seed/patch.diff`).
 3. `meta.json` — {{"property": "{pid}", "what_it_breaks": "...", "needs_to_manifest": "...", "tests_run": ["..."], "tests_result": "..."}}.
Leave the worktree with your change applied. In your final answer, summarise the change, what is needed for it to manifest, and the exact commands you ran with their outcomes."""
def make(pid, tests, extra="", name=None):
    p=props[pid]
    return TEMPLATE.format(wt=f"/tmp/seed/{name or pid}", title=p['title'], statement=p['statement'], quant=p['quantifier']['text'],
        files=", ".join(p['anchors']['files']), mech="; ".join(m['name']+' ('+m.get('where','')+')' for m in p['anchors']['mechanism']),
        tests=tests, pid=pid, extra=extra)
if __name__=="__main__":
    print(make(sys.argv[1], sys.argv[2], sys.argv[3] if len(sys.argv)>3 else "", sys.argv[4] if len(sys.argv)>4 else None))
