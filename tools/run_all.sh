#!/bin/bash
# runs every claimed check of MANIFEST.json sequentially in the given tier; prints one status line per check
cd "$(dirname "$0")/.."
TIER=${1:-quick}
for id in $(python3 -c "import json; print(' '.join(c['property_id'] for c in json.load(open('MANIFEST.json'))['checks']))"); do
  s=$(date +%s)
  ./check $id --tier $TIER > /tmp/runall_$id.log 2>&1; rc=$?
  e=$(date +%s)
  echo "$id tier=$TIER exit=$rc wall=$((e-s))s known=$(grep -c '^KNOWN-FINDING' /tmp/runall_$id.log) viol=$(grep -c '^VIOLATION' /tmp/runall_$id.log) inconcl=$(grep -c '^INCONCLUSIVE' /tmp/runall_$id.log)"
done
