#!/bin/bash
# runs every claimed check of MANIFEST.json in the given tier; prints one status line per check.
# PAR=<n> runs n checks at a time (default 1; each check already uses several worker processes).
cd "$(dirname "$0")/.."
TIER=${1:-quick}
PAR=${PAR:-1}
one() {
  id=$1; TIER=$2
  s=$(date +%s)
  ./check $id --tier $TIER > /tmp/runall_${TIER}_$id.log 2>&1; rc=$?
  e=$(date +%s)
  echo "$id tier=$TIER exit=$rc wall=$((e-s))s known=$(grep -c '^KNOWN-FINDING' /tmp/runall_${TIER}_$id.log) viol=$(grep -c '^VIOLATION' /tmp/runall_${TIER}_$id.log) inconcl=$(grep -c '^INCONCLUSIVE' /tmp/runall_${TIER}_$id.log)"
}
export -f one
python3 -c "import json; print('\n'.join(c['property_id'] for c in json.load(open('MANIFEST.json'))['checks']))" \
  | xargs -P "$PAR" -I{} bash -c "one {} $TIER"
