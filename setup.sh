#!/bin/bash
# Builds /verif/.venv: an overlay of the repository's /venv (numpy, pandas, scipy, pandapower editable)
# plus the solver tooling from the offline wheelhouse. Idempotent; no network.
set -e
cd "$(dirname "$0")"
V=.venv
if [ ! -x $V/bin/python ] || ! $V/bin/python -c "import z3, sympy, crosshair, cvc5, jsonschema" 2>/dev/null; then
  rm -rf $V
  /venv/bin/python -m venv $V
  SP=$($V/bin/python -c "import site; print(site.getsitepackages()[0])")
  echo "import site; site.addsitedir('/venv/lib/python3.12/site-packages')" > $SP/_overlay.pth
  PIP_NO_INDEX=1 $V/bin/pip install -q --no-index --find-links /opt/veriftools/wheels \
      z3-solver sympy crosshair-tool cvc5 jsonschema >/dev/null
fi
$V/bin/python -c "import z3, sympy, crosshair, cvc5, jsonschema, pandapower; print('setup ok', z3.get_version_string())"
