"""C25 Standard types are applied completely and consistently (parameter flow)."""
import copy

import numpy as np
import pandas as pd

from .common import pp, Inst, patched
from . import c24
from symx.core import issym

PROPERTY = "C25"
LEVEL = "model_checking"
FUNCTIONS = [("pandapower.std_types", "create_std_type"), ("pandapower.std_types", "load_std_type"), ("pandapower.std_types", "copy_std_types"),
             ("pandapower.std_types", "rename_std_type"), ("pandapower.std_types", "change_std_type"), ("pandapower.std_types", "delete_std_type"),
             ("pandapower.std_types", "std_type_exists"), ("pandapower.create.line_create", "create_line"),
             ("pandapower.create.trafo_create", "create_transformer"), ("pandapower.create.trafo_create", "create_transformer3w")]
STUBS = ["table-writing boundary captured as in C24 (values stay symbolic instead of being cast into typed columns)"]
ASSUMPTIONS = ["type values symbolic in [0.1, 200]; type names from a 3-element list; string/integer type parameters concrete"]
OUTSIDE = ["informational line type parameters that create_line does not copy and no calculation reads (q_mm2, g0_us_per_km)", "aliasing of the caller's dict by create_std_type (the stored type is the passed object; not required by the property)", "fuse std types' characteristic creation (scipy)", "'behaves in calculations like explicit parameters' follows from equal rows (C02 checks the rows' meaning)",
           "parameters of a type whose column does not exist in the table are skipped by change_std_type (documented iteration over existing columns)"]
BOUNDS = {"quick": "line, trafo, trafo3w: create from type (all keys), change_std_type; dict state machine create/copy/rename/delete over 3 names", "thorough": "same"}


def _apply_ok(ctx, label, std, row, skip=()):
    for k, v in std.items():
        if k in skip:
            continue
        ctx.true(f"{label}/has/{k}", k in row and not c24._absent(row[k]))
        if k in row and not c24._absent(row[k]):
            if isinstance(v, str):
                ctx.true(f"{label}/equals_type_value/{k}", row[k] == v)
            else:
                ctx.eq(f"{label}/equals_type_value/{k}", row[k], v)


def make_create(kind):
    def fn(ctx):
        net = pp.create_empty_network()
        if kind == "line":
            mod = ctx.load("pandapower.create.line_create")
            b0, b1 = pp.create_bus(net, 20.), pp.create_bus(net, 20.)
            std = c24._std(ctx, c24.LINE_REQ, c24.LINE_OPT_NUM, c24.LINE_OPT_CONC, set(c24.LINE_OPT_NUM) | set(c24.LINE_OPT_CONC))
            net.line["alpha"] = np.nan
            net.std_types["line"]["SYM"] = std
            single, batch, cm = c24._capture(ctx, mod, "line")
            with cm:
                mod.create_line(net, b0, b1, 1.5, "SYM")
            _apply_ok(ctx, "create_line", std, single, skip=("q_mm2", "g0_us_per_km"))
        elif kind == "trafo":
            mod = ctx.load("pandapower.create.trafo_create")
            b0, b1 = pp.create_bus(net, 110.), pp.create_bus(net, 20.)
            std = c24._std(ctx, c24.TRAFO_REQ, c24.TRAFO_OPT_NUM, c24.TRAFO_OPT_CONC, set(c24.TRAFO_OPT_NUM) | set(c24.TRAFO_OPT_CONC))
            net.std_types["trafo"]["SYM"] = std
            single, batch, cm = c24._capture(ctx, mod, "trafo")
            with cm:
                mod.create_transformer(net, b0, b1, "SYM")
            _apply_ok(ctx, "create_transformer", std, single)
            ctx.true("create_transformer/tap_pos_defaults_to_neutral", single.get("tap_pos") == std["tap_neutral"])
        else:
            mod = ctx.load("pandapower.create.trafo_create")
            b = [pp.create_bus(net, v) for v in (110., 20., 10.)]
            std = c24._std(ctx, c24.T3_REQ, c24.T3_OPT_NUM, c24.T3_OPT_CONC, set(c24.T3_OPT_NUM) | set(c24.T3_OPT_CONC))
            net.std_types["trafo3w"]["SYM"] = std
            net.trafo3w = net.trafo3w.astype(object)
            mod.create_transformer3w(net, b[0], b[1], b[2], "SYM")
            row = net.trafo3w.iloc[-1]
            _apply_ok(ctx, "create_transformer3w", std, {k: row[k] for k in row.index})
    return fn


def make_change(kind, same_name=False):
    """same_name: the element already carries the type's name, but the type was re-defined since (or the row was edited): applying the
    type again must still write every value of the type"""
    def fn(ctx):
        st = ctx.load("pandapower.std_types")
        net = pp.create_empty_network()
        if kind == "line":
            b0, b1 = pp.create_bus(net, 20.), pp.create_bus(net, 20.)
            pp.create_line(net, b0, b1, 1.0, "NAYY 4x50 SE")
            pp.create_line(net, b0, b1, 2.0, "NAYY 4x50 SE")
            req, optn, optc, tab = c24.LINE_REQ, ["g_us_per_km"], c24.LINE_OPT_CONC, "line"
        else:
            b0, b1 = pp.create_bus(net, 110.), pp.create_bus(net, 20.)
            pp.create_transformer(net, b0, b1, "25 MVA 110/20 kV")
            pp.create_transformer(net, b0, b1, "25 MVA 110/20 kV")
            req, optn, optc, tab = c24.TRAFO_REQ, ["shift_degree", "tap_step_percent", "tap_step_degree"], {"tap_side": "lv", "tap_min": -5, "tap_max": 5, "tap_neutral": 1}, "trafo"
        std = c24._std(ctx, req, optn, optc, set(optn) | set(optc))
        net.std_types[tab]["SYM"] = std
        net[tab] = net[tab].astype(object)
        if same_name:
            net[tab].at[0, "std_type"] = "SYM"
        before_other = net[tab].loc[1].copy()
        st.change_std_type(net, 0, "SYM", element=tab)
        row = net[tab].loc[0]
        _apply_ok(ctx, f"change_std_type/{tab}", std, {k: row[k] for k in row.index if k in net[tab].columns})
        ctx.true(f"change_std_type/{tab}/name_recorded", row["std_type"] == "SYM")
        other = net[tab].loc[1]
        same = all((c24._absent(before_other[c]) and c24._absent(other[c])) or before_other[c] == other[c] for c in net[tab].columns)
        ctx.true(f"change_std_type/{tab}/other_rows_untouched", bool(same))
    return fn


NAMES = ["A", "B", "C"]


def _sel(ctx, name, n):
    if not ctx.symbolic:
        return min(int(float(ctx.var(name, 0., float(n)))), n - 1)
    s = ctx.var(name, 0., float(n))
    for k in range(n - 1):
        if bool(s < k + 1):
            return k
    return n - 1


def make_dict_machine():
    def fn(ctx):
        st = ctx.load("pandapower.std_types")
        net = pp.create_empty_network()
        net2 = pp.create_empty_network()
        data = {"r_ohm_per_km": ctx.var("r", 0.01, 2.), "x_ohm_per_km": ctx.var("x", 0.01, 2.), "c_nf_per_km": ctx.var("c", 1., 500.),
                "max_i_ka": ctx.var("imax", 0.05, 2.), "extra_parameter": ctx.var("extra", -5., 5.)}
        a = NAMES[_sel(ctx, "name_a", 3)]
        b = NAMES[_sel(ctx, "name_b", 3)]
        st.create_std_type(net, dict(data), a, element="line")
        got = st.load_std_type(net, a, "line")
        ctx.true("load_after_create/keys", set(got) == set(data))
        for k in data:
            ctx.eq(f"load_after_create/{k}", got[k], data[k])
        ctx.true("exists_after_create", bool(st.std_type_exists(net, a, "line")))
        st.copy_std_types(net2, net, element="line")
        got2 = st.load_std_type(net2, a, "line")
        for k in data:
            ctx.eq(f"load_after_copy/{k}", got2[k], data[k])
        if a != b:
            st.rename_std_type(net, a, b, element="line")
            got3 = st.load_std_type(net, b, "line")
            ctx.true("renamed/keys", set(got3) == set(data))
            for k in data:
                ctx.eq(f"load_after_rename/{k}", got3[k], data[k])
            ctx.true("old_name_gone_after_rename", not st.std_type_exists(net, a, "line"))
            st.delete_std_type(net, b, "line")
            ctx.true("gone_after_delete", not st.std_type_exists(net, b, "line"))
    return fn


def instances(tier):
    out = [Inst(f"create_{k}", make_create(k), nvars=30, samples=2, meta=dict(kind=k)) for k in ("line", "trafo", "trafo3w")]
    out += [Inst(f"change_{k}", make_change(k), nvars=24, samples=2, meta=dict(kind=k)) for k in ("line", "trafo")]
    out += [Inst(f"change_{k}_same_type_name_redefined", make_change(k, same_name=True), nvars=24, samples=2, meta=dict(kind=k, scenario="element already named after the re-defined type"))
            for k in ("line", "trafo")]
    # several lines created at once from a list of types (create_lines): every line gets the parameters of its own type, also when only some of
    # the types carry zero-sequence data - the batch path is compared with create_line per line (the instances of C24, reused)
    all_l = set(c24.LINE_OPT_NUM) | set(c24.LINE_OPT_CONC)
    zero = {"r0_ohm_per_km", "x0_ohm_per_km", "c0_nf_per_km"}
    for nm, prs in (("zero_sequence_in_first_only", [all_l, all_l - zero]), ("zero_sequence_in_second_only", [set(), all_l])):
        out.append(Inst(f"create_lines_type_list_{nm}", c24.make_line_list(prs), nvars=40, samples=2,
                        meta=dict(kind="line", std_type="list", present=[sorted(p_) for p_ in prs])))
    out.append(Inst("dict_state_machine", make_dict_machine(), nvars=12, samples=3, raises=(UserWarning,), meta=dict(kind="std type library")))
    return out


LEVEL_TEXT = ("Bounded model checking of the standard-type parameter flow: with symbolic type values the real create functions and "
              "change_std_type are shown to put every parameter of the type into the element row unchanged (other rows untouched), and the "
              "real library functions (create/load/copy/rename/delete) are shown to return the stored values for solver-enumerated names.")
LEVEL_NOTE = ("Trusted: the table-writing helpers (captured), pandas .at on object tables, z3. Bounds: one element, 3 type names.")
