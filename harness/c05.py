"""C05 Power flow results are invariant under equivalent re-representations (value-level transformations, 2-safety on the builders)."""
import copy

import numpy as np
import pandas as pd

from .common import pp, Inst, setcol
from . import c02

PROPERTY = "C05"
LEVEL = "model_checking"
FUNCTIONS = [("pandapower.build_branch", "_calc_line_parameter"), ("pandapower.build_branch", "_calc_trafo_parameter"),
             ("pandapower.build_branch", "_calc_impedance_parameter"), ("pandapower.build_bus", "_calc_pq_elements_and_add_on_ppc"),
             ("pandapower.build_bus", "_calc_shunts_and_add_on_ppc"), ("pandapower.pypower.makeYbus", "makeYbus"),
             ("pandapower.pypower.makeYbus", "branch_vectors"), ("pandapower.pypower.makeSbus", "_get_Sload")]
STUBS = ["Newton solves the system it is given: two representations that hand it the same physical system (admittances in siemens-equivalent "
         "units Y_pu*baseMVA, injections in MW) have the same solution"]
ASSUMPTIONS = ["element parameters symbolic as in C02/C01; the two per-unit bases S1, S2 symbolic and independent"]
OUTSIDE = ["bus relabelling / reindexing and bus fusing through switches (integer graph code: structural)", "row permutations of tables (structural)"]
BOUNDS = {"quick": "base change: line, trafo(pi, Ratio hv), impedance, PQ elements + shunt; load split in two; parallel=2 vs two lines; line from/to swap; out-of-service and zero-power element",
          "thorough": "same + trafo t model"}


def _line_two_port(ctx, bb, mY, net, sn, swap=False):
    from pandapower.pypower.idx_bus import BASE_KV
    net.sn_mva = sn
    ppc = {"bus": ctx.obj(net._ppc["bus"]), "branch": ctx.obj(net._ppc["branch"].real), "baseMVA": sn}
    bb._calc_line_parameter(net, ppc)
    return [c02._two_port(ctx, mY, ppc["branch"][k]) for k in range(len(net.line))]


def make_base(kind):
    def fn(ctx):
        bb = ctx.load("pandapower.build_branch")
        mY = ctx.load("pandapower.pypower.makeYbus")
        S1, S2 = ctx.var("S1", 1., 1000.), ctx.var("S2", 1., 1000.)
        res = []
        if kind == "line":
            net0 = copy.deepcopy(c02._line_net())
            V = {c: ctx.var(c, *r) for c, r in {"r_ohm_per_km": (0.01, 1.), "x_ohm_per_km": (0.01, 1.), "c_nf_per_km": (1., 500.),
                                                 "g_us_per_km": (0., 10.), "length_km": (0.1, 50.), "parallel": (1., 4.)}.items()}
            for S in (S1, S2):
                net = copy.deepcopy(net0)
                for c, v in V.items():
                    setcol(ctx, net.line, c, [v])
                res.append((_line_two_port(ctx, bb, mY, net, S)[0], S))
        elif kind == "impedance":
            net0 = copy.deepcopy(c02._imp_net())
            V = {c: ctx.var(c, 0.001, 1.) for c in ("rft_pu", "xft_pu", "rtf_pu", "xtf_pu", "gf_pu", "bf_pu", "gt_pu", "bt_pu")}
            V["sn_mva"] = ctx.var("sn_imp", 1., 100.)
            for S in (S1, S2):
                net = copy.deepcopy(net0)
                for c, v in V.items():
                    setcol(ctx, net.impedance, c, [v])
                net.sn_mva = S
                ppc = {"bus": ctx.obj(net._ppc["bus"]), "branch": ctx.obj(net._ppc["branch"].real), "baseMVA": S}
                bb._calc_impedance_parameter(net, ppc)
                f, t = net._pd2ppc_lookups["branch"]["impedance"]
                res.append((c02._two_port(ctx, mY, ppc["branch"][f]), S))
        else:
            model = kind.split("_")[1]
            net0 = copy.deepcopy(c02._trafo_net("Ratio", "hv", model, True))
            vk, m = ctx.var("vk_percent", 1., 25.), ctx.var("m_vkr", 0.05, 0.95)
            i0, nn = ctx.var("i0_percent", 0.01, 2.), ctx.var("n_pfe", 0.05, 0.95)
            sn_t = ctx.var("sn_mva", 1., 400.)
            vals = {"sn_mva": sn_t, "vk_percent": vk, "vkr_percent": vk * (1 - m * m) / (1 + m * m), "i0_percent": i0,
                    "pfe_kw": i0 / 100 * sn_t * (1 - nn * nn) / (1 + nn * nn) * 1000, "tap_pos": ctx.var("tap_pos", -2., 2.),
                    "tap_step_percent": ctx.var("tap_step_percent", 0.1, 3.), "parallel": ctx.var("parallel", 1., 3.)}
            for S in (S1, S2):
                net = copy.deepcopy(net0)
                for c, v in vals.items():
                    setcol(ctx, net.trafo, c, [v])
                net.sn_mva = S
                ppc = {"bus": ctx.obj(net._ppc["bus"]), "branch": ctx.obj(net._ppc["branch"].real), "baseMVA": S}
                bb._calc_trafo_parameter(net, ppc)
                f, t = net._pd2ppc_lookups["branch"]["trafo"]
                res.append((c02._two_port(ctx, mY, ppc["branch"][f]), S))
        (a, Sa), (b, Sb) = res
        for k in a:
            ctx.eq(f"physical_admittance_independent_of_per_unit_base/{k}", a[k] * Sa, b[k] * Sb)
    return fn


def make_base_switch():
    def fn(ctx):
        S1, S2 = ctx.var("S1", 1., 1000.), ctx.var("S2", 1., 1000.)
        z, k, vn = ctx.var("z_ohm", 0.01, 50.), ctx.var("k_rx", 0.05, 0.9), ctx.var("vn_kv", 0.4, 400.)
        a = c02.switch_two_port(ctx, S1, z, k, vn)
        b = c02.switch_two_port(ctx, S2, z, k, vn)
        for key in a:
            ctx.eq(f"physical_admittance_independent_of_per_unit_base/{key}", a[key] * S1, b[key] * S2)
    return fn


def _pq_net():
    from . import c01
    return c01._net(True)


def make_pq(variant):
    def fn(ctx):
        bbus = ctx.load("pandapower.build_bus")
        mS = ctx.load("pandapower.pypower.makeSbus")
        from pandapower.pypower.idx_bus import PD, QD, GS, BS, CID_P, CZD_P, CID_Q, CZD_Q, VM
        base = copy.deepcopy(_pq_net())
        p, q, s = ctx.var("p", -10., 10.), ctx.var("q", -10., 10.), ctx.var("scaling", 0.1, 2.)
        zi = {c: ctx.var(c, 0., 50.) for c in ("const_z_p_percent", "const_i_p_percent", "const_z_q_percent", "const_i_q_percent")}
        vm = ctx.var("vm", 0.8, 1.2)

        def run(net, sn=None):
            ppc = net._ppc
            ppc = {"bus": ctx.obj(ppc["bus"]), "gen": ctx.obj(ppc["gen"]), "branch": ctx.obj(ppc["branch"].real), "baseMVA": sn if sn is not None else ppc["baseMVA"]}
            ppc["bus"][:, [PD, QD, GS, BS, CID_P, CZD_P, CID_Q, CZD_Q]] = 0.
            if sn is not None:
                net.sn_mva = sn
            bbus._calc_pq_elements_and_add_on_ppc(net, ppc)
            bbus._calc_shunts_and_add_on_ppc(net, ppc)
            nb = ppc["bus"].shape[0]
            S = mS._get_Sload(ppc["bus"], ctx.array([vm] * nb))
            return ppc, S

        def set_load(net, row, pp_, qq_):
            for c, v in (("p_mw", pp_), ("q_mvar", qq_), ("scaling", s), *zi.items()):
                col = list(net.load[c].values)
                col[row] = v
                setcol(ctx, net.load, c, col)
        n1, n2 = copy.deepcopy(base), copy.deepcopy(base)
        lk = base._pd2ppc_lookups["bus"]
        b = lk[base.load.bus.values[0]]
        if variant == "split":
            p1 = ctx.var("p_part", -10., 10.)
            q1 = ctx.var("q_part", -10., 10.)
            # n1: loads 0 and 1 carry (p1, q1) and (p - p1, q - q1) with the same shares; n2: load 0 carries (p, q), load 1 carries nothing
            set_load(n1, 0, p1, q1)
            set_load(n1, 1, p - p1, q - q1)
            set_load(n2, 0, p, q)
            set_load(n2, 1, 0.0, 0.0)
            (ppc1, S1), (ppc2, S2) = run(n1), run(n2)
            ctx.eq("split_load_same_bus_demand_at_any_voltage", S1[b], S2[b])
        elif variant == "out_of_service":
            set_load(n1, 0, p, q)
            set_load(n2, 0, p, q)
            n2.load.loc[1, "in_service"] = False
            n2._is_elements["load"] = n2.load.in_service.values.copy()
            n1.load = n1.load.drop(1)
            n1._is_elements["load"] = n1.load.in_service.values.copy()
            n1.res_load = n1.res_load.drop(1)
            (ppc1, S1), (ppc2, S2) = run(n1), run(n2)
            for bb_ in range(ppc1["bus"].shape[0]):
                ctx.eq(f"out_of_service_element_changes_nothing/bus{bb_}", S1[bb_], S2[bb_])
                ctx.eq(f"out_of_service_element_changes_nothing/GS{bb_}", ppc1["bus"][bb_, GS], ppc2["bus"][bb_, GS])
        elif variant == "base":
            S1v, S2v = ctx.var("S1", 1., 1000.), ctx.var("S2", 1., 1000.)
            set_load(n1, 0, p, q)
            set_load(n2, 0, p, q)
            (ppc1, Sa), (ppc2, Sb) = run(n1, S1v), run(n2, S2v)
            for bb_ in range(ppc1["bus"].shape[0]):
                ctx.eq(f"bus_demand_in_MW_independent_of_base/bus{bb_}", Sa[bb_], Sb[bb_])
                ctx.eq(f"bus_shunt_in_MW_independent_of_base/GS{bb_}", ppc1["bus"][bb_, GS], ppc2["bus"][bb_, GS])
                ctx.eq(f"bus_shunt_in_MW_independent_of_base/BS{bb_}", ppc1["bus"][bb_, BS], ppc2["bus"][bb_, BS])
    return fn


def _two_line_net():
    if "two" not in c02._cache:
        net = pp.create_empty_network()
        b0 = pp.create_bus(net, 20.)
        b1 = pp.create_bus(net, 20.)
        pp.create_ext_grid(net, b0)
        pp.create_line_from_parameters(net, b0, b1, 2., 0.1, 0.3, 10, 1.)
        pp.create_line_from_parameters(net, b0, b1, 2., 0.1, 0.3, 10, 1.)
        pp.create_line_from_parameters(net, b1, b0, 2., 0.1, 0.3, 10, 1., in_service=False)
        pp.create_load(net, b1, 1., 0.5)
        pp.runpp(net, numba=False, lightsim2grid=False)
        c02._cache["two"] = net
    return c02._cache["two"]


def make_lines(variant):
    def fn(ctx):
        bb = ctx.load("pandapower.build_branch")
        mY = ctx.load("pandapower.pypower.makeYbus")
        net = copy.deepcopy(_two_line_net())
        V = {c: ctx.var(c, *r) for c, r in {"r_ohm_per_km": (0.01, 1.), "x_ohm_per_km": (0.01, 1.), "c_nf_per_km": (1., 500.),
                                             "g_us_per_km": (0., 10.), "length_km": (0.1, 50.)}.items()}
        sn = ctx.var("sn_mva", 1., 1000.)
        if variant == "parallel":
            for c, v in V.items():
                setcol(ctx, net.line, c, [v, v, v])
            n2 = copy.deepcopy(net)
            setcol(ctx, n2.line, "parallel", [2.0, 1.0, 1.0])
            tp1 = _line_two_port(ctx, bb, mY, net, sn)
            tp2 = _line_two_port(ctx, bb, mY, n2, sn)
            for k in tp1[0]:
                ctx.eq(f"parallel_2_equals_two_identical_lines/{k}", tp1[0][k] + tp1[1][k], tp2[0][k])
        else:
            for c, v in V.items():
                setcol(ctx, net.line, c, [v, v, v])
            net.line["in_service"] = True
            tp = _line_two_port(ctx, bb, mY, net, sn)
            a, c_ = tp[0], tp[2]       # line 2 has from/to swapped
            ctx.eq("swapped_line/Yff_is_Ytt", a["Yff"], c_["Ytt"])
            ctx.eq("swapped_line/Ytt_is_Yff", a["Ytt"], c_["Yff"])
            ctx.eq("swapped_line/Yft_is_Ytf", a["Yft"], c_["Ytf"])
            ctx.eq("swapped_line/Ytf_is_Yft", a["Ytf"], c_["Yft"])
    return fn


_TOPO = {}


def _topo_net(kind):
    """the same 3-bus network with a line ending at an out-of-service bus (or behind an open switch) in two orientations"""
    if kind not in _TOPO:
        nets = []
        for swapped in (False, True):
            net = pp.create_empty_network(sn_mva=10.)
            b0, b1, b2 = (pp.create_bus(net, 20.) for _ in range(3))
            pp.create_ext_grid(net, b0)
            pp.create_line_from_parameters(net, b0, b1, 2., 0.1, 0.3, 10., 1.)
            f, t = (b2, b1) if swapped else (b1, b2)
            pp.create_line_from_parameters(net, f, t, 3., 0.2, 0.25, 20., 1.)
            pp.create_load(net, b1, 1., 0.5)
            if kind == "out_of_service_bus":
                net.bus.loc[b2, "in_service"] = False
            else:
                pp.create_switch(net, b2, 1, "l", closed=False)
            pp.runpp(net, numba=False, lightsim2grid=False, check_connectivity=False)
            nets.append(net)
        _TOPO[kind] = nets
    return _TOPO[kind]


def make_swap_topology(kind):
    """from/to swap of a line whose far end is an out-of-service bus / behind an open switch: the complete conversion (real _pd2ppc with the
    switch and out-of-service-bus handling) must hand the solver the same bus admittance matrix for both orientations"""
    def fn(ctx):
        p2 = ctx.load("pandapower.pd2ppc")
        mY = ctx.load("pandapower.pypower.makeYbus")
        V = {c: ctx.var(c, *r) for c, r in {"r_ohm_per_km": (0.01, 1.), "x_ohm_per_km": (0.01, 1.), "c_nf_per_km": (1., 300.), "length_km": (0.1, 50.)}.items()}
        Ys = []
        for net0 in _topo_net(kind):
            net = copy.deepcopy(net0)
            for c, v in V.items():
                setcol(ctx, net.line, c, [net.line[c].values[0], v])
            net._options["recycle"] = None
            ppc, ppci = p2._pd2ppc(net)
            Ybus, Yf, Yt = mY.makeYbus(ppci["baseMVA"], ppci["bus"], ppci["branch"])
            Ys.append(Ybus.toarray() if hasattr(Ybus, "toarray") else np.asarray(Ybus))
        A, B = Ys
        ctx.true("same_number_of_buses_in_the_solved_network", A.shape == B.shape)
        if A.shape != B.shape:
            return
        for i in range(A.shape[0]):
            for j in range(A.shape[1]):
                a, b = A[i, j], B[i, j]
                ctx.close(f"Ybus[{i},{j}].re", a.real, b.real, 1e-9)
                ctx.close(f"Ybus[{i},{j}].im", a.imag, b.imag, 1e-9)
    return fn


def instances(tier):
    out = [Inst("base_line", make_base("line"), nvars=24, samples=2, meta=dict(transformation="net.sn_mva", element="line")),
           Inst("base_impedance", make_base("impedance"), nvars=24, samples=2, meta=dict(transformation="net.sn_mva", element="impedance")),
           Inst("base_trafo_pi", make_base("trafo_pi"), nvars=30, samples=2, timeout_ms=60000, meta=dict(transformation="net.sn_mva", element="trafo pi")),
           Inst("base_impedance_switch", make_base_switch(), nvars=20, samples=2, meta=dict(transformation="net.sn_mva", element="bus-bus switch with z_ohm")),
           Inst("base_pq_shunt", make_pq("base"), nvars=30, samples=2, raises=(), meta=dict(transformation="net.sn_mva", element="PQ elements, shunt, ward")),
           Inst("split_load", make_pq("split"), nvars=30, samples=2, meta=dict(transformation="split load")),
           Inst("out_of_service_load", make_pq("out_of_service"), nvars=30, samples=2, meta=dict(transformation="add out-of-service element")),
           Inst("parallel_lines", make_lines("parallel"), nvars=24, samples=2, meta=dict(transformation="parallel=2 vs two lines")),
           Inst("swap_line", make_lines("swap"), nvars=24, samples=2, meta=dict(transformation="from/to swap"))]
    from . import c01
    out.append(Inst("fused_buses_voltage_dependent_loads", c01.make_demand(True), nvars=48, samples=2, raises=(ValueError,),
                    meta=dict(transformation="buses fused by a closed bus-bus switch", note="ZIP loads on both fused buses: the solver's demand at the fused bus is the sum of the elements' demands")))
    for kind in ("out_of_service_bus", "open_switch"):
        out.append(Inst(f"swap_line_at_{kind}", make_swap_topology(kind), nvars=16, samples=2, raises=(UserWarning,),
                        meta=dict(transformation="from/to swap", topology=kind)))
    if tier == "thorough":
        out.append(Inst("base_trafo_t", make_base("trafo_t"), nvars=30, samples=2, timeout_ms=120000, meta=dict(transformation="net.sn_mva", element="trafo t")))
    return out


INSTANCE_TIMEOUT_S = {"quick": 900, "thorough": 3000}
LEVEL_TEXT = ("2-safety model checking of the real ppc builders: the same element is converted in two equivalent representations (different "
              "per-unit base, split load, parallel count vs duplicated line, swapped line ends, extra out-of-service element) and z3 shows "
              "the physical quantities handed to the solver (Y_pu*baseMVA, MW/Mvar injections at any voltage) identical, for all values.")
LEVEL_NOTE = ("Trusted: Newton (generic), z3. Structural transformations (re-indexing, bus fusing) are outside. Bounds: one element per instance.")
