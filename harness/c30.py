"""C30 Network diagnostics are stateless (statelessness part of the property)."""
import copy

from .common import Inst

PROPERTY = "C30"
LEVEL = "model_checking"
FUNCTIONS = [("pandapower.diagnostic.diagnostic_functions", "Overload.diagnostic"), ("pandapower.diagnostic.diagnostic_functions", "WrongLineCapacitance.diagnostic"),
             ("pandapower.diagnostic.diagnostic_functions", "WrongSwitchConfiguration.diagnostic"), ("pandapower.diagnostic.diagnostic_functions", "SlackGenPlacement.diagnostic"),
             ("pandapower.diagnostic.diagnostic", "Diagnostic.__init__"), ("pandapower.diagnostic.diagnostic", "Diagnostic.register_function"),
             ("pandapower.diagnostic.diagnostic", "Diagnostic.diagnose_network")]
STUBS = ["network_unchanged_*: the power flow handed to the check (its documented `run` argument) is a contract stub that converges or raises LoadflowNotConverged by a symbolic choice per call",
         "the 18 registered default diagnostic functions are replaced by recording no-ops with the same names and argument lists "
         "(their content is irrelevant to state leakage; what each would have received is recorded)"]
ASSUMPTIONS = ["option values are symbolic reals in [-10,10]; option names come from {2 existing defaults, 1 new name} via a symbolic selector",
               "module-level defaults are restored by the harness after every path"]
OUTSIDE = ["'leaves the network unchanged' for the checks that only read the network or work on a deep copy (nothing to restore); unexpected exception classes inside a check",
           "report formatting"]
BOUNDS = {"quick": "<= 2 options per call, <= 2 calls, <= 2 instances, <= 1 registration", "thorough": "same + 3 calls on one instance"}
KEYS = ["min_r_ohm", "overload_scaling_factor", "brand_new_option"]


def _select(ctx, name, n):
    if not ctx.symbolic:
        return min(int(float(ctx.var(name, 0., float(n)))), n - 1)
    s = ctx.var(name, 0., float(n))
    for k in range(n - 1):
        if bool(s < k + 1):
            return k
    return n - 1


def _env(ctx):
    import importlib
    import sys
    importlib.import_module("pandapower.diagnostic.diagnostic_functions")
    dfn = sys.modules["pandapower.diagnostic.diagnostic_functions"]
    from pandapower.diagnostic.diagnostic_helpers import DiagnosticFunction
    dg = ctx.load("pandapower.diagnostic.diagnostic")

    class Rec(DiagnosticFunction):
        log = []

        def __init__(self, tag):
            self.tag = tag

        def diagnostic(self, net, **kwargs):
            Rec.log.append((self.tag, dict(kwargs)))
            return None

        def report(self, *a, **k):
            return None
    return dfn, dg, Rec


def make_fn(scenario):
    def fn(ctx):
        dfn, dg, Rec = _env(ctx)
        saved_args = dict(dfn.default_argument_values)
        saved_funcs = list(dfn.default_diagnostic_functions)
        defaults = copy.deepcopy(saved_args)
        try:
            dfn.default_diagnostic_functions[:] = [(n, Rec(n), a) for (n, f, a) in saved_funcs]
            names = [n for n, _, _ in dfn.default_diagnostic_functions]
            Rec.log = []
            k1 = KEYS[_select(ctx, "k1", 3)]
            k2 = KEYS[_select(ctx, "k2", 3)]
            v1 = ctx.var("v1", -10., 10.)
            v2 = ctx.var("v2", -10., 10.)

            def seen(tag="overload"):
                return [kw for (t, kw) in Rec.log if t == tag]

            def check_defaults(label, kw, skip=()):
                for key, dv in defaults.items():
                    if key in skip:
                        continue
                    ctx.true(f"{label}/has/{key}", key in kw)
                    if key in kw:
                        ctx.eq(f"{label}/default/{key}", kw[key], dv)
                for key in kw:
                    if key not in defaults and key not in skip:
                        ctx.true(f"{label}/no_foreign_option/{key}", False)

            if scenario == "other_instance":
                d1 = dg.Diagnostic()
                d1.diagnose_network(None, report_style=None, **{k1: v1, k2: v2})
                Rec.log = []
                d2 = dg.Diagnostic()
                d2.diagnose_network(None, report_style=None)
                check_defaults("second_instance_sees_defaults", seen()[0])
                check_defaults("module_defaults_unchanged", dfn.default_argument_values)
                ctx.true("second_instance_functions", [n for n, _, _ in d2._functions] == names)
            elif scenario == "later_call":
                d1 = dg.Diagnostic()
                d1.diagnose_network(None, report_style=None, **{k1: v1})
                Rec.log = []
                d1.diagnose_network(None, report_style=None, **{k2: v2})
                kw = seen()[0]
                check_defaults("later_call_sees_defaults_plus_own", kw, skip=(k2,))
                ctx.true("later_call/own_option_present", k2 in kw)
                if k2 in kw:
                    ctx.eq("later_call/own_option_value", kw[k2], v2)
            elif scenario == "register":
                d1 = dg.Diagnostic()
                d1.register_function(Rec("extra"), None, "extra")
                d2 = dg.Diagnostic()
                ctx.true("registered_function_not_in_other_instance", "extra" not in [n for n, _, _ in d2._functions])
                ctx.true("registered_function_not_in_module_default", "extra" not in [n for n, _, _ in dfn.default_diagnostic_functions])
                ctx.true("registered_function_in_own_instance", "extra" in [n for n, _, _ in d1._functions])
                Rec.log = []
                d2.diagnose_network(None, report_style=None, **{k1: v1})
                ctx.true("other_instance_does_not_run_it", len(seen("extra")) == 0)
                Rec.log = []
                d1.diagnose_network(None, report_style=None, **{k2: v2})
                ctx.true("own_instance_runs_it_once", len(seen("extra")) == 1)
                if seen("extra"):
                    check_defaults("registering_instance_unaffected_by_other_call", seen("extra")[0], skip=(k2,))
            elif scenario == "register_no_defaults":
                # instances created without the default functions: registrations stay with their instance
                d1 = dg.Diagnostic(add_default_functions=False)
                d1.register_function(Rec("extra"), None, "extra")
                d2 = dg.Diagnostic(add_default_functions=False)
                ctx.true("other_empty_instance_has_no_functions", [n for n, _, _ in d2._functions] == [])
                ctx.true("own_instance_has_exactly_its_function", [n for n, _, _ in d1._functions] == ["extra"])
                Rec.log = []
                d2.diagnose_network(None, report_style=None, **{k1: v1})
                ctx.true("other_empty_instance_runs_nothing", len(Rec.log) == 0)
                d3 = dg.Diagnostic()
                ctx.true("default_instance_unaffected", [n for n, _, _ in d3._functions] == names)
                Rec.log = []
                d1.diagnose_network(None, report_style=None, **{k2: v2})
                ctx.true("own_instance_runs_it_once", len(seen("extra")) == 1 and len(Rec.log) == 1)
                if seen("extra"):
                    kw = seen("extra")[0]
                    ctx.true("no_defaults_means_only_own_options", set(kw) == {k2})
                    if k2 in kw:
                        ctx.eq("own_option_value", kw[k2], v2)
                d2.register_function(Rec("second"), None, "second")
                ctx.true("later_registration_elsewhere_not_visible", [n for n, _, _ in d1._functions] == ["extra"])
            elif scenario == "own_call":
                d1 = dg.Diagnostic()
                d1.diagnose_network(None, report_style=None, **{k1: v1})
                kw = seen()[0]
                ctx.true("own_option_present", k1 in kw)
                if k1 in kw:
                    ctx.eq("own_option_value", kw[k1], v1)
                check_defaults("other_options_default", kw, skip=(k1,))
        finally:
            dfn.default_argument_values.clear()
            dfn.default_argument_values.update(saved_args)
            dfn.default_diagnostic_functions[:] = saved_funcs
    return fn


_UNET = {}


def _unchanged_net():
    if "n" not in _UNET:
        from .common import pp
        net = pp.create_empty_network()
        b = [pp.create_bus(net, 20.) for _ in range(4)]
        pp.create_ext_grid(net, b[0])
        for k in range(3):
            pp.create_line_from_parameters(net, b[k], b[k + 1], 2., 0.1, 0.3, 10., 1.)
        pp.create_load(net, b[2], 1., 0.3, scaling=0.9)
        pp.create_load(net, b[3], 1., 0.3, scaling=1.1)
        pp.create_gen(net, b[1], 0.5, vm_pu=1.0, scaling=0.8, index=0)
        pp.create_gen(net, b[2], 0.3, vm_pu=1.0, scaling=0.7, index=5)           # no sgen with index 5
        pp.create_sgen(net, b[3], 0.2, 0.1, scaling=1.0, index=0)
        pp.create_sgen(net, b[3], 0.1, 0.0, scaling=1.2, index=1)
        pp.create_switch(net, b[1], 1, "l", closed=False)
        pp.create_switch(net, b[2], b[3], "b", closed=True)
        pp.runpp(net, numba=False, lightsim2grid=False)
        _UNET["n"] = net
    return _UNET["n"]


def make_unchanged(check):
    """'leaves the network unchanged' for the checks that modify the caller's network temporarily (scaling factors, line capacitance, switch
    states, slack flags): the real diagnostic method with the power flow replaced by its contract (each call converges or raises
    LoadflowNotConverged - a symbolic choice per call); symbolic table values; afterwards every input table cell is the user's value"""
    def fn(ctx):
        import sys
        import importlib
        import numpy as np
        from pandapower.auxiliary import LoadflowNotConverged
        importlib.import_module("pandapower.diagnostic.diagnostic_functions")
        dfn = ctx.load("pandapower.diagnostic.diagnostic_functions")
        net = copy.deepcopy(_unchanged_net())
        sym = {}
        for tab, col, lo, hi in (("load", "scaling", 0.1, 2.), ("gen", "scaling", 0.1, 2.), ("sgen", "scaling", 0.1, 2.), ("line", "c_nf_per_km", 1., 300.)):
            vals = [ctx.var(f"{tab}{i}_{col}", lo, hi) for i in net[tab].index]
            sym[(tab, col)] = vals
            net[tab][col] = ctx.series(vals, index=net[tab].index)
        before = {t: net[t].copy() for t in ("load", "gen", "sgen", "line", "switch", "bus", "ext_grid")}
        calls = {"n": 0}

        def run(net_, **kw):
            k = calls["n"]
            calls["n"] += 1
            converges = bool(ctx.var(f"run{k}_converges", 0., 1.) >= 0.5) if k < 5 else True
            if not converges:
                raise LoadflowNotConverged("contract stub: this power flow does not converge")
        obj = getattr(dfn, check)()
        obj.diagnostic(net, run=run)
        ctx.true("power_flow_was_attempted", calls["n"] >= 1)
        for t, df0 in before.items():
            ctx.true(f"{t}/same_rows_and_columns", list(net[t].index) == list(df0.index) and list(net[t].columns) == list(df0.columns))
            if list(net[t].index) != list(df0.index) or list(net[t].columns) != list(df0.columns):
                continue
            for c in df0.columns:
                for i in df0.index:
                    a, b_ = net[t].at[i, c], df0.at[i, c]
                    if (t, c) in sym:
                        ctx.eq(f"{t}.{c}[{i}]_is_the_users_value", a, b_)
                    else:
                        na_a = a is None or (isinstance(a, float) and a != a) or a is getattr(__import__("pandas"), "NA")
                        na_b = b_ is None or (isinstance(b_, float) and b_ != b_) or b_ is getattr(__import__("pandas"), "NA")
                        ctx.true(f"{t}.{c}[{i}]_is_the_users_value", (na_a and na_b) if (na_a or na_b) else bool(a == b_))
    return fn


def instances(tier):
    out = [Inst(s, make_fn(s), nvars=8, meta=dict(scenario=s), samples=2) for s in ("other_instance", "later_call", "register", "register_no_defaults", "own_call")]
    for check in ("Overload", "WrongLineCapacitance", "WrongSwitchConfiguration", "SlackGenPlacement"):
        out.append(Inst(f"network_unchanged_{check}", make_unchanged(check), nvars=24, samples=3, max_paths=2000,
                        meta=dict(part="leaves the network unchanged", check=check)))
    return out


LEVEL_TEXT = ("Bounded model checking of the real Diagnostic plumbing (__init__, register_function, diagnose_network) with symbolic option "
              "values and solver-enumerated option names: what every diagnostic function receives in a call is shown to be the defaults "
              "overridden by that call's own arguments, for all values, across instances and across calls.")
LEVEL_NOTE = ("Trusted: in the option instances the diagnostic functions are stubbed by recorders; the network_unchanged_* instances run four real diagnostic functions around a stubbed power flow (they cannot leak state between Diagnostic objects other "
              "than through the plumbing checked here); z3. Bounds: <= 2 options, <= 2 calls, <= 2 instances.")
