"""C19 State estimation reproduces the true state from exact measurements (measurement functions h(x) vs the power flow result formulas)."""
import copy

import numpy as np

from .common import pp, Inst, patched, setcol
from . import c06

PROPERTY = "C19"
LEVEL = "model_checking"
FUNCTIONS = [("pandapower.estimation.algorithm.matrix_base", "BaseAlgebra.create_hx"), ("pandapower.estimation.algorithm.matrix_base", "BaseAlgebra.create_rx"),
             ("pandapower.estimation.algorithm.matrix_base", "BaseAlgebra._merge_mask"), ("pandapower.pypower.pfsoln", "pfsoln"),
             ("pandapower.estimation.state_estimation", "estimate"),
             ("pandapower.estimation.ppc_conversion", "_add_zero_injection"), ("pandapower.estimation.ppc_conversion", "_get_branch_map"),
             ("pandapower.estimation.ppc_conversion", "_add_measurements_to_ppci"), ("pandapower.estimation.ppc_conversion", "_add_measurements_to_branch")]
STUBS = ["the WLS iteration is not run: at the true state x the estimator's residual is z - h(x); h is executed for real and compared with what the power "
         "flow result code (pfsoln) reports for the same voltages - noise-free measurements taken from power flow results therefore give a zero residual",
         "the eppci container is a stub holding V (polar, symbolic), masks selecting every measurement type, and the Y matrices of the real makeYbus"]
ASSUMPTIONS = ["3 buses / 2 branches with symbolic branch data, symbolic voltages in polar form, all measurement types at all locations"]
OUTSIDE = ["WLS / LP / robust estimators' iterations, observability analysis, bad data detection, measurement conversion of the pandapower tables beyond the per-unit conversion "
           "of current magnitudes and one p / one q branch measurement on one transformer and one line (va units, bus p/q signs, merging of duplicate measurements, trafo3w sides)", "af-wls extension"]
BOUNDS = {"quick": "current measurement units (trafo hv/lv, line from/to); h(x) for p/q bus, p/q from/to, v, va, i from/to on 3 buses / 1 branch (thorough: 2 branches) + concrete reachability twin through estimate()", "thorough": "same"}


def make_hx(parts=("bus", "flow", "v", "i"), lean=False):
    def fn(ctx):
        mb = ctx.load("pandapower.estimation.algorithm.matrix_base")
        mY = ctx.load("pandapower.pypower.makeYbus")
        ps = ctx.load("pandapower.pypower.pfsoln")
        from symx.core import polar
        from pandapower.pypower.idx_bus import VM, VA, PD, QD
        from pandapower.pypower.idx_gen import GEN_BUS, GEN_STATUS, QMIN, QMAX
        from pandapower.pypower.idx_brch import PF, QF, PT, QT, F_BUS, T_BUS
        from . import c01
        bus, branch = c06._branch_bus(ctx, LAYOUT[0], lean=lean)
        base = 10.0
        Ybus, Yf, Yt = mY.makeYbus(base, bus, branch)
        nb, nl = 3, len(LAYOUT[0])
        vm = [ctx.var(f"vm{b}", 0.8, 1.2) for b in range(nb)]
        va = [0.0] + [ctx.var(f"va{b}", -30., 30.) for b in (1, 2)]
        if ctx.symbolic:
            V = ctx.array([polar(vm[b], va[b]) for b in range(nb)])
        else:
            import cmath
            V = ctx.array([cmath.rect(vm[b], np.deg2rad(va[b])) for b in range(nb)])
        allb, allbr = np.arange(nb), np.arange(nl)
        mask = {"pbus": allb, "qbus": allb, "pfrom": allbr, "qfrom": allbr, "pto": allbr, "qto": allbr, "vm": allb, "va": allb, "ifrom": allbr, "ito": allbr}

        class E:
            algorithm = "wls"
            non_nan_meas_mask = mask

            def E2V(self, E_):
                return V
        alg = object.__new__(mb.BaseAlgebra)
        alg.eppci = E()
        alg.fb = np.array([f for f, t in LAYOUT[0]])
        alg.tb = np.array([t for f, t in LAYOUT[0]])
        alg.Ybus, alg.Yf, alg.Yt = Ybus, Yf, Yt
        hx = alg.create_hx(None)
        # the power flow's own result code at the same voltages
        _, gen = c01._bus_gen_arrays(ctx, 3, 1)
        gen[0, GEN_BUS], gen[0, GEN_STATUS], gen[0, QMIN], gen[0, QMAX] = 0, 1, -100., 100.
        empty = np.zeros((0, 30))
        b2, g2, br2 = ps.pfsoln(base, bus.copy(), gen, branch.copy(), empty, empty, empty, empty, Ybus, Yf, Yt, V, np.array([0]), np.array([0]))
        A = Ybus.toarray() if hasattr(Ybus, "toarray") else np.asarray(Ybus)
        k = 0
        for b in (range(nb) if "bus" in parts else ()):        # bus injections: V conj(Ybus V)
            I = 0.0
            for j in range(nb):
                I = I + A[b, j] * V[j]
            S = V[b] * I.conjugate()
            ctx.eq(f"h_pbus[{b}]_is_the_bus_injection", hx[b], S.real)
            ctx.eq(f"h_qbus[{b}]_is_the_bus_injection", hx[nb + b], S.imag)
        o = 2 * nb
        for r in (range(nl) if "flow" in parts else ()):
            ctx.eq(f"h_pfrom[{r}]_is_the_reported_branch_flow", hx[o + r], br2[r, PF] / base)
            ctx.eq(f"h_qfrom[{r}]_is_the_reported_branch_flow", hx[o + nl + r], br2[r, QF] / base)
            ctx.eq(f"h_pto[{r}]_is_the_reported_branch_flow", hx[o + 2 * nl + r], br2[r, PT] / base)
            ctx.eq(f"h_qto[{r}]_is_the_reported_branch_flow", hx[o + 3 * nl + r], br2[r, QT] / base)
        o = 2 * nb + 4 * nl
        for b in (range(nb) if "v" in parts else ()):
            ctx.eq(f"h_vm[{b}]_is_the_reported_voltage_magnitude", hx[o + b], b2[b, VM])
            got = hx[o + nb + b]
            got_deg = got.deg if hasattr(got, "deg") else (np.rad2deg(got) if not ctx.symbolic else got)
            ctx.close(f"h_va[{b}]_is_the_reported_voltage_angle", got_deg, b2[b, VA], 1e-9)
        o = 2 * nb + 4 * nl + 2 * nb
        for r in (range(nl) if "i" in parts else ()):
            f, t = int(alg.fb[r]), int(alg.tb[r])
            i_f, i_t = hx[o + r], hx[o + nl + r]
            ctx.eq(f"h_ifrom[{r}]_squared_is_S_over_V_squared", i_f * i_f * vm[f] * vm[f] * base * base, br2[r, PF] * br2[r, PF] + br2[r, QF] * br2[r, QF])
            ctx.eq(f"h_ito[{r}]_squared_is_S_over_V_squared", i_t * i_t * vm[t] * vm[t] * base * base, br2[r, PT] * br2[r, PT] + br2[r, QT] * br2[r, QT])
        m1, m2 = np.array([0, 2]), np.array([1, 2])
        tot, a, b_ = mb.BaseAlgebra._merge_mask(m1, m2)
        ctx.true("merge_mask_union", list(tot) == [0, 1, 2] and list(a) == [True, False, True] and list(b_) == [False, True, True])
    return fn


LAYOUT = [[(0, 1)]]


def make_zero_injection(option):
    """virtual zero-injection measurements (P = 0, Q = 0 with a tiny standard deviation) may only be put on buses whose net power really is
    zero in both components - otherwise the exact measurements of a converged power flow are no longer reproduced"""
    def fn(ctx):
        pc = ctx.load("pandapower.estimation.ppc_conversion")
        from pandapower.pypower.idx_bus import bus_cols, BUS_TYPE, PD, QD
        from pandapower.estimation.idx_bus import ZERO_INJ_FLAG, P, Q, P_STD, Q_STD, bus_cols_se
        nb = 3
        bus = ctx.obj(np.zeros((nb, bus_cols)))
        pd_, qd_ = [], []
        for b in range(nb):
            bus[b, BUS_TYPE] = 3 if b == 0 else 1
            pd_.append(ctx.var(f"pd{b}", -5., 5.))
            qd_.append(ctx.var(f"qd{b}", -5., 5.))
            bus[b, PD], bus[b, QD] = pd_[b], qd_[b]
        ppci = {"bus": bus}
        bus_append = np.full((nb, bus_cols_se), np.nan, dtype=np.float64)

        class Net:
            _pd2ppc_lookups = {"aux": {}, "bus": np.arange(nb)}
        out = pc._add_zero_injection(Net, ppci, bus_append, option)
        for b in range(nb):
            flagged = bool(out[b, ZERO_INJ_FLAG] == 1)
            if flagged:
                ctx.eq(f"flagged_bus_has_zero_active_power/bus{b}", pd_[b], 0.0)
                ctx.eq(f"flagged_bus_has_zero_reactive_power/bus{b}", qd_[b], 0.0)
                ctx.true(f"flagged_bus_is_not_the_slack/bus{b}", b != 0)
                ctx.true(f"virtual_measurement_is_zero/bus{b}", float(out[b, P]) == 0.0 and float(out[b, Q]) == 0.0)
            else:
                ctx.true(f"unflagged_bus_gets_no_virtual_measurement/bus{b}", bool(np.isnan(float(out[b, P]))) and bool(np.isnan(float(out[b, Q]))))
    return fn

def make_branch_map():
    """branch measurements are written to the row of the measured element in the internal (in-service only) branch table: whichever branches
    are out of service (each in-service flag is a symbolic boolean: one path per feasible combination), the row number returned for an
    element must be the position of that element among the active rows - otherwise an exact measurement is attributed to another branch"""
    def fn(ctx):
        pc = ctx.load("pandapower.estimation.ppc_conversion")
        import pandas as pd
        blocks = {"line": (0, 3), "trafo": (3, 5), "impedance": (5, 6)}
        index = {"line": [4, 0, 7], "trafo": [2, 9], "impedance": [1]}
        flags = [ctx.var(f"ppc_branch_row{r}_in_service", 0., 1.) >= 0.5 for r in range(6)]
        mask = np.array([bool(f) for f in flags])         # forks

        class Net:
            _pd2ppc_lookups = {"branch": dict(blocks)}
            line = pd.DataFrame(index=index["line"])
            trafo = pd.DataFrame(index=index["trafo"])
            impedance = pd.DataFrame(index=index["impedance"])
        active_rows = [r for r in range(6) if mask[r]]
        for et, (start, end) in blocks.items():
            m = pc._get_branch_map(Net, mask, et)
            for pos, idx in enumerate(index[et]):
                row = start + pos
                if mask[row]:
                    ctx.true(f"{et}{idx}_is_mapped", idx in m.index)
                    if idx in m.index:
                        ctx.true(f"{et}{idx}_maps_to_its_own_row_of_the_internal_branch_table", int(m.loc[idx]) == active_rows.index(row))
                else:
                    ctx.true(f"{et}{idx}_out_of_service_is_not_mapped", idx not in m.index)
    return fn


_IM = {}


def _im_net():
    if "n" not in _IM:
        net = pp.create_empty_network()
        b = [pp.create_bus(net, v) for v in (110., 20., 20.)]
        pp.create_ext_grid(net, b[0])
        pp.create_transformer_from_parameters(net, b[0], b[1], 25., 110., 20., 0.4, 10., 14., 0.07)
        pp.create_line_from_parameters(net, b[1], b[2], 5., 0.1, 0.3, 10., 0.5)
        pp.create_load(net, b[2], 5., 1.)
        pp.runpp(net, numba=False, lightsim2grid=False)
        for et, el, side in (("trafo", 0, "hv"), ("trafo", 0, "lv"), ("line", 0, "from"), ("line", 0, "to")):
            pp.create_measurement(net, "i", et, 0.1, 0.01, el, side=side)
        pp.create_measurement(net, "v", "bus", 1.0, 0.01, 0)
        pp.create_measurement(net, "p", "trafo", 1.0, 0.01, 0, side="lv")
        pp.create_measurement(net, "q", "line", 1.0, 0.01, 0, side="from")
        _IM["n"] = net
    return _IM["n"]


def make_current_units():
    """current magnitude measurements reach the estimator in per unit of the rated current base of the bus *at the measured side*
    (I_base = S_base / (sqrt3 Un_side)), for both sides of a transformer and both ends of a line - the real _add_measurements_to_ppci
    on symbolic measured values and rated voltages"""
    def fn(ctx):
        pc = ctx.load("pandapower.estimation.ppc_conversion")
        import copy
        from pandapower.pypower.idx_brch import branch_cols
        from pandapower.estimation.idx_brch import IM_FROM, IM_TO, P_TO, Q_FROM
        _ppci_concrete()
        net = copy.deepcopy(_im_net())
        vals = [ctx.var(f"i_ka_{k}", 0.01, 2.) for k in ("trafo_hv", "trafo_lv", "line_from", "line_to")]
        pq = [ctx.var("p_trafo_lv_mw", -50., 50.), ctx.var("q_line_from_mvar", -50., 50.)]
        setcol(ctx, net.measurement, "value", vals + [1.0] + pq)
        vn = [ctx.var("vn_hv_kv", 60., 400.), ctx.var("vn_lv_kv", 1., 50.)]
        setcol(ctx, net.bus, "vn_kv", [vn[0], vn[1], vn[1]])
        ppci = copy.deepcopy(_ppci_concrete())          # concrete internal case (real _init_ppc); only the measurement columns are symbolic
        net["_pd2ppc_lookups"] = _im_net()["_pd2ppc_lookups"]
        S = ppci["baseMVA"]
        pc._add_measurements_to_ppci(net, ppci, "aux_bus", "wls")
        lk = net._pd2ppc_lookups["branch"]
        rows = {"trafo": lk["trafo"][0], "line": lk["line"][0]}
        br = ppci["branch"]
        ctx.close("trafo_lv_active_power_in_per_unit_at_the_to_side", br[rows["trafo"], branch_cols + P_TO] * S, pq[0], 1e-9)
        ctx.close("line_from_reactive_power_in_per_unit_at_the_from_side", br[rows["line"], branch_cols + Q_FROM] * S, pq[1], 1e-9)
        sq3 = np.sqrt(3)
        for nm, row, col, val, un in (("trafo_hv", rows["trafo"], IM_FROM, vals[0], vn[0]), ("trafo_lv", rows["trafo"], IM_TO, vals[1], vn[1]),
                                      ("line_from", rows["line"], IM_FROM, vals[2], vn[1]), ("line_to", rows["line"], IM_TO, vals[3], vn[1])):
            ctx.close(f"{nm}_current_in_per_unit_of_the_base_current_at_its_own_side", br[row, branch_cols + col] * S, val * un * sq3, 1e-9)
    return fn


_PPCI = {}


def _ppci_concrete():
    if "c" not in _PPCI:
        import copy
        from pandapower.estimation import ppc_conversion as real
        net = copy.deepcopy(_im_net())
        _PPCI["c"] = real._init_ppc(net, np.ones(3), np.zeros(3), True)[1]
        _im_net()["_pd2ppc_lookups"] = net["_pd2ppc_lookups"]
    return _PPCI["c"]


def instances(tier):
    LAYOUT[0] = [(0, 1)] if tier == "quick" else [(0, 1), (1, 2)]
    zi = [Inst("zero_injection_zero_pwr_bus", make_zero_injection("zero_pwr_bus"), nvars=10, samples=4, max_paths=500, meta=dict(part="zero injection buses", option="zero_pwr_bus")),
          Inst("current_measurement_units", make_current_units(), nvars=10, samples=3, raises=(UserWarning,), meta=dict(part="measurement conversion", measurements="i on trafo hv/lv, line from/to")),
          Inst("branch_measurement_rows", make_branch_map(), nvars=8, samples=4, max_paths=200, meta=dict(part="measurement mapping", branches="3 lines, 2 trafos, 1 impedance, any subset out of service"))]
    if tier == "quick":
        return zi + [Inst("hx_equals_power_flow_results", make_hx(), nvars=40, samples=2, timeout_ms=120000, max_paths=200, meta=dict(part="h(x)", branches=1))]
    # 2 branches: the same execution, the claims split over four instances so that they are decided in parallel
    # (the current-magnitude claims square a square root of a large rational function: with all shunt parameters symbolic the canonical
    # forms for 2 branches do not finish within the budget - there the bus shunts and the asymmetric branch shunts are concrete zeros)
    return zi + [Inst(f"hx_equals_power_flow_results_{p}", make_hx((p,), lean=(p == "i")), nvars=40, samples=2, timeout_ms=120000, max_paths=200,
                 meta=dict(part="h(x)", branches=2, claims=p, shunts="concrete zero" if p == "i" else "symbolic"))
            for p in ("bus", "flow", "v", "i")]


def extra_checks(tier, seed):
    """reachability twin (concrete, public API): exact measurements of a converged power flow are reproduced by estimate()"""
    import warnings
    warnings.filterwarnings("ignore")
    out = dict(inconclusive=[], violations=[], samples=[], validated=0)
    import pandapower.networks as nw
    from pandapower.estimation import estimate
    for order in (0, 1):
        try:
            net = nw.case9()
            pp.runpp(net)
            meas = [("v", "bus", net.res_bus.vm_pu[b], 0.001, b, None) for b in net.bus.index]
            for l in net.line.index:
                meas.append(("p", "line", net.res_line.p_from_mw[l], 0.01, l, "from"))
                meas.append(("q", "line", net.res_line.q_from_mvar[l], 0.01, l, "from"))
                meas.append(("p", "line", net.res_line.p_to_mw[l], 0.01, l, "to"))
            if order:
                meas = meas[::-1]
            for mt, et, val, std, el, side in meas:
                pp.create_measurement(net, mt, et, val, std, el, side=side)
            ok = estimate(net, init="flat")
            success = ok["success"] if isinstance(ok, dict) else bool(ok)
            err = float(abs(net.res_bus_est.vm_pu - net.res_bus.vm_pu).max())
            out["validated"] += 1
            if not success or err > 1e-6:
                out["violations"].append(dict(signature=f"C19/estimate_case9/order{order}", replay=dict(kind="external", reproduced=True,
                                               observed=f"success={success} max |vm_est - vm| = {err}")))
        except Exception as e:
            out["violations"].append(dict(signature=f"C19/estimate_case9/order{order}", replay=dict(kind="external", reproduced=True,
                                           observed=f"estimate raised {type(e).__name__}: {e}")))
    out["samples"].append(dict(reachability_twin="estimate(case9) with exact v and line p/q measurements, two measurement orders"))
    return out


LEVEL_TEXT = ("Bounded model checking of the estimator's measurement functions: the real BaseAlgebra.create_hx is executed on symbolic voltages and "
              "symbolic network data and z3 shows every entry (bus injections, branch flows both sides, voltage magnitude/angle, branch current "
              "magnitudes) equal to what the real power flow result code reports for the same state - so noise-free measurements taken from power "
              "flow results have zero residual at the true state. A concrete twin runs estimate() end to end.")
LEVEL_NOTE = ("Trusted: the WLS iteration converges to a zero-residual point when one exists and the system is observable (outside); z3. Narrow claim.")
