"""shared helpers for the harnesses"""
import copy
import warnings

import numpy as np
import pandas as pd

warnings.filterwarnings("ignore")
import pandapower as pp  # noqa: E402

from vf.runner import Inst  # noqa: E402,F401
from symx import core  # noqa: E402
from symx.core import SReal, SComplex, SBool, Abort  # noqa: E402,F401


def setcol(ctx, df, col, values):
    """write a (symbolic or concrete) column into a table"""
    df[col] = ctx.series(values, index=df.index)


def ppc_arrays(ctx, net, base=None, key="_ppc"):
    p = net[key]
    out = {"bus": ctx.obj(p["bus"]), "branch": ctx.obj(p["branch"].real), "gen": ctx.obj(p["gen"]),
           "baseMVA": base if base is not None else p["baseMVA"]}
    for k in ("svc", "tcsc", "ssc", "vsc", "bus_dc", "branch_dc"):
        if k in p:
            out[k] = p[k].copy()
    return out


class patched:
    """rebind names in a (real or instrumented) module for the duration of a block"""

    def __init__(self, mod, **names):
        self.mod, self.names = mod, names

    def __enter__(self):
        self.old = {k: self.mod.__dict__.get(k, _MISSING) for k in self.names}
        self.mod.__dict__.update(self.names)
        return self

    def __exit__(self, *a):
        for k, v in self.old.items():
            if v is _MISSING:
                self.mod.__dict__.pop(k, None)
            else:
                self.mod.__dict__[k] = v
        return False


_MISSING = object()


def fnum(x):
    """cell -> float (concrete mode) / SReal (symbolic)"""
    if isinstance(x, (SReal, SComplex)):
        return x
    if isinstance(x, np.ndarray) and x.ndim == 0:
        return fnum(x[()])
    return x
