"""C24 Creating elements in batch equals creating them one by one (parameter flow of standard-type values)."""
import inspect
import math

import numpy as np
import pandas as pd

from .common import pp, Inst, patched
from symx.core import issym

PROPERTY = "C24"
LEVEL = "translation_validation"
FUNCTIONS = [("pandapower.create.trafo_create", "create_transformer"), ("pandapower.create.trafo_create", "create_transformers"),
             ("pandapower.create.trafo_create", "create_transformers_from_parameters"),
             ("pandapower.create.trafo_create", "create_transformer3w"), ("pandapower.create.trafo_create", "create_transformers3w"),
             ("pandapower.create.trafo_create", "create_transformers3w_from_parameters"),
             ("pandapower.create.line_create", "create_line"), ("pandapower.create.line_create", "create_lines"),
             ("pandapower.create.line_create", "create_lines_from_parameters"),
             ("pandapower.create.load_create", "create_loads"), ("pandapower.create.sgen_create", "create_sgens"),
             ("pandapower.create.storage_create", "create_storages"), ("pandapower.create._utils", "_add_to_entries_if_not_nan")]
STUBS = ["table-writing boundary: _set_entries / _set_multiple_entries / _set_value_if_not_nan / _add_to_entries_if_not_nan results are "
         "captured with their (symbolic) values instead of being cast into typed DataFrame columns"]
ASSUMPTIONS = ["standard-type values are symbolic reals in [0.1, 200]; tap_neutral/tap_min/tap_max/tap_pos and string parameters are concrete "
               "(they pass through pandas float/str casts); key-presence patterns of optional type parameters are enumerated"]
OUTSIDE = ["rejection behaviour (non-existent buses, duplicate indices, duplicate costs): structural", "dtype handling of the tables",
           "buses, loads, sgens, gens, storages, shunts, wards, switches, impedances, costs (no std-type parameter flow; plain argument copies)"]
BOUNDS = {"quick": "one element per call; trafo: all optional keys present / only required keys; line: with/without optional keys; trafo3w likewise",
          "thorough": "each optional key individually absent, explicit tap_pos vs default"}

SKIP = {"name", "index", "geo", "std_type", "in_service", "hv_bus", "lv_bus", "mv_bus", "from_bus", "to_bus"}

TRAFO_REQ = ["sn_mva", "vn_hv_kv", "vn_lv_kv", "vk_percent", "vkr_percent", "pfe_kw", "i0_percent"]
TRAFO_OPT_NUM = ["shift_degree", "tap_step_percent", "tap_step_degree", "vk0_percent", "vkr0_percent", "mag0_percent", "mag0_rx", "si0_hv_partial"]
TRAFO_OPT_CONC = {"tap_neutral": 1, "tap_min": -9, "tap_max": 9, "tap_side": "hv", "tap_changer_type": "Ratio", "vector_group": "Dyn5"}
T3_REQ = ["sn_hv_mva", "sn_mv_mva", "sn_lv_mva", "vn_hv_kv", "vn_mv_kv", "vn_lv_kv", "vk_hv_percent", "vk_mv_percent", "vk_lv_percent",
          "vkr_hv_percent", "vkr_mv_percent", "vkr_lv_percent", "pfe_kw", "i0_percent"]
T3_OPT_NUM = ["shift_mv_degree", "shift_lv_degree", "tap_step_percent", "tap_step_degree"]
T3_OPT_CONC = {"tap_neutral": 1, "tap_min": -9, "tap_max": 9, "tap_side": "hv", "tap_changer_type": "Ratio"}
LINE_REQ = ["r_ohm_per_km", "x_ohm_per_km", "c_nf_per_km", "max_i_ka"]
LINE_OPT_NUM = ["g_us_per_km", "r0_ohm_per_km", "x0_ohm_per_km", "c0_nf_per_km", "g0_us_per_km", "alpha", "q_mm2"]
LINE_OPT_CONC = {"type": "cs"}


def _first(v):
    if isinstance(v, pd.Series):
        return v.iloc[0]
    if isinstance(v, np.ndarray) and v.ndim == 0:
        return v[()]
    if isinstance(v, (np.ndarray, list, tuple)):
        return v[0] if len(v) else None
    return v


def _absent(v):
    if v is None:
        return True
    if issym(v):
        return False
    try:
        return bool(pd.isna(v))
    except (TypeError, ValueError):
        return False


def _capture(ctx, mod, table):
    """returns (dict single, dict batch, context manager)"""
    single, batch = {}, {}

    def set_entries(net, tab, index, preserve_dtypes=True, entries=None):
        single.update(entries or {})

    def set_multiple(net, tab, index, preserve_dtypes=True, defaults_to_fill=None, entries=None):
        batch.update({k: _first(v) for k, v in (entries or {}).items()})

    def set_value_if_not_nan(net, index, value, column, element_type, dtype=None, default_val=np.nan):
        if not _absent(value):
            single[column] = value
        elif column not in single and default_val is not np.nan and not _absent(default_val):
            pass

    def add_to_entries_if_not_nan(net, element_type, entries, index, column, values, dtype=None, default_val=np.nan):
        v = _first(values)
        if not _absent(v):
            entries[column] = values
    names = dict(_set_entries=set_entries, _set_multiple_entries=set_multiple, _set_value_if_not_nan=set_value_if_not_nan,
                 _add_to_entries_if_not_nan=add_to_entries_if_not_nan, _add_branch_geodata=lambda *a, **k: None, _add_multiple_branch_geodata=lambda *a, **k: None)
    names = {k: v for k, v in names.items() if k in mod.__dict__}
    return single, batch, patched(mod, **names)


def _compare(ctx, single, batch, label):
    keys = sorted((set(single) | set(batch)) - SKIP)
    for k in keys:
        s, b = single.get(k), batch.get(k)
        if _absent(s) and _absent(b):
            continue
        if _absent(s) != _absent(b):
            # a value present on one side only: equal only if the present one is a harmless default (0 / False / 1.0 for df, parallel)
            present = b if _absent(s) else s
            harmless = (not issym(present)) and (present in (0, False, 0.0) or (k in ("df", "parallel") and present == 1))
            ctx.true(f"{label}/same_presence/{k}", bool(harmless))
            continue
        if isinstance(s, str) or isinstance(b, str) or isinstance(s, (bool, np.bool_)) or isinstance(b, (bool, np.bool_)):
            ctx.true(f"{label}/equal/{k}", s == b)
        else:
            ctx.eq(f"{label}/equal/{k}", s, b)


def _std(ctx, req, opt_num, opt_conc, present):
    std = {k: ctx.var("std_" + k, 0.1, 200.) for k in req}
    for k in opt_num:
        if k in present:
            std[k] = ctx.var("std_" + k, 0.1, 200.)
    for k, v in opt_conc.items():
        if k in present:
            std[k] = v
    return std


def make_trafo(present, tap_pos):
    def fn(ctx):
        tc = ctx.load("pandapower.create.trafo_create")
        net = pp.create_empty_network()
        b0 = pp.create_bus(net, 110.)
        b1 = pp.create_bus(net, 20.)
        net.std_types["trafo"]["SYM"] = _std(ctx, TRAFO_REQ, TRAFO_OPT_NUM, TRAFO_OPT_CONC, present)
        single, batch, cm = _capture(ctx, tc, "trafo")
        kw = {} if tap_pos is None else {"tap_pos": tap_pos}
        with cm:
            tc.create_transformer(net, b0, b1, "SYM", **kw)
            tc.create_transformers(net, [b0], [b1], "SYM", **kw)
        ctx.true("both_reached_table", bool(single) and bool(batch))
        _compare(ctx, single, batch, "trafo")
    return fn


def make_trafo3w(present, tap_pos):
    def fn(ctx):
        tc = ctx.load("pandapower.create.trafo_create")
        net = pp.create_empty_network()
        b0 = pp.create_bus(net, 110.)
        b1 = pp.create_bus(net, 20.)
        b2 = pp.create_bus(net, 10.)
        net.std_types["trafo3w"]["SYM"] = _std(ctx, T3_REQ, T3_OPT_NUM, T3_OPT_CONC, present)
        single, batch, cm = _capture(ctx, tc, "trafo3w")
        kw = {} if tap_pos is None else {"tap_pos": tap_pos}
        net.trafo3w = net.trafo3w.astype(object)
        with cm:
            tc.create_transformer3w(net, b0, b1, b2, "SYM", **kw)
            row = net.trafo3w.iloc[-1]
            single.update({k: row[k] for k in row.index})
            tc.create_transformers3w(net, [b0], [b1], [b2], "SYM", **kw)
        ctx.true("both_reached_table", bool(single) and bool(batch))
        _compare(ctx, single, batch, "trafo3w")
    return fn


def make_line(present):
    def fn(ctx):
        lc = ctx.load("pandapower.create.line_create")
        net = pp.create_empty_network()
        b0 = pp.create_bus(net, 20.)
        b1 = pp.create_bus(net, 20.)
        net.std_types["line"]["SYM"] = _std(ctx, LINE_REQ, LINE_OPT_NUM, LINE_OPT_CONC, present)
        if "alpha" in present:
            net.line["alpha"] = np.nan
        length = ctx.var("length_km", 0.01, 100.)
        single, batch, cm = _capture(ctx, lc, "line")
        with cm:
            lc.create_line(net, b0, b1, length, "SYM")
            lc.create_lines(net, [b0], [b1], [length] if not ctx.symbolic else ctx.array([length]), "SYM")
        ctx.true("both_reached_table", bool(single) and bool(batch))
        _compare(ctx, single, batch, "line")
    return fn


def _row(v, r):
    if isinstance(v, pd.Series):
        return v.iloc[r]
    if isinstance(v, np.ndarray) and v.ndim == 0:
        return v[()]
    if isinstance(v, (np.ndarray, list, tuple)):
        return v[r] if len(v) > r else None
    return v


def make_line_list(present_per_type):
    """create_lines with one standard type per line (a list), types with different sets of optional keys, against one create_line per line"""
    def fn(ctx):
        lc = ctx.load("pandapower.create.line_create")
        net = pp.create_empty_network()
        b0 = pp.create_bus(net, 20.)
        b1 = pp.create_bus(net, 20.)
        n = len(present_per_type)
        for k, present in enumerate(present_per_type):
            net.std_types["line"][f"SYM{k}"] = {kk: (ctx.var(f"t{k}_{kk}", 0.1, 200.) if not isinstance(v, str) else v)
                                                 for kk, v in _std(ctx, LINE_REQ, LINE_OPT_NUM, LINE_OPT_CONC, present).items()}
        lengths = [ctx.var(f"length_km{k}", 0.01, 100.) for k in range(n)]
        singles, raw = [], {}

        def set_multiple(net_, tab, index, preserve_dtypes=True, defaults_to_fill=None, entries=None):
            raw.update(entries or {})
        for k in range(n):
            single, _, cm = _capture(ctx, lc, "line")
            with cm:
                lc.create_line(net, b0, b1, lengths[k], f"SYM{k}")
            singles.append(single)
        _, _, cm = _capture(ctx, lc, "line")
        with cm, patched(lc, _set_multiple_entries=set_multiple):
            lc.create_lines(net, [b0] * n, [b1] * n, lengths if not ctx.symbolic else ctx.array(lengths), [f"SYM{k}" for k in range(n)])
        ctx.true("both_reached_table", all(bool(x) for x in singles) and bool(raw))
        for k in range(n):
            _compare(ctx, singles[k], {kk: _row(v, k) for kk, v in raw.items()}, f"line{k}")
    return fn

PQ_KINDS = {"load": ("pandapower.create.load_create", "create_load", "create_loads", {}),
            "sgen": ("pandapower.create.sgen_create", "create_sgen", "create_sgens", {}),
            "storage": ("pandapower.create.storage_create", "create_storage", "create_storages", {"max_e_mwh": 5.})}


DOCUMENTED_DEFAULT = {"generator_type": "current_source"}


def make_pq_batch(kind, n=3):
    """create_loads / create_sgens / create_storages against one single call per element, on the real tables: each element's optional
    `controllable` flag is True, False or not given (NaN) - which of the three is decided by a symbolic selector, so every mix is a
    feasible path - and the optional limit columns are given for some elements only; every column of the two tables must agree"""
    def fn(ctx):
        modname, single_name, batch_name, extra = PQ_KINDS[kind]
        mod = ctx.load(modname)
        sel = [ctx.var(f"controllable_selector{k}", 0., 3.) for k in range(n)]
        vals = [True if bool(s < 1.) else (False if bool(s < 2.) else np.nan) for s in sel]
        sel_l = [ctx.var(f"limit_selector{k}", 0., 2.) for k in range(n)]
        lims = [0.5 + k if bool(s < 1.) else np.nan for k, s in enumerate(sel_l)]
        p = [1.0 + 0.25 * k for k in range(n)]
        q = [0.1 * (k + 1) for k in range(n)]
        net1, net2 = pp.create_empty_network(), pp.create_empty_network()
        for net in (net1, net2):
            pp.create_bus(net, 20.)
        for k in range(n):
            getattr(mod, single_name)(net1, 0, p_mw=p[k], q_mvar=q[k], controllable=vals[k], max_p_mw=lims[k], **extra)
        getattr(mod, batch_name)(net2, [0] * n, p_mw=p, q_mvar=q, controllable=vals, max_p_mw=lims, **{kk: [v] * n for kk, v in extra.items()})
        t1, t2 = net1[kind], net2[kind]
        ctx.true("same_number_of_rows", len(t1) == len(t2) == n)
        for col in sorted((set(t1.columns) | set(t2.columns)) - {"name"}):
            for k in range(n):
                a = t1[col].iloc[k] if col in t1.columns else np.nan
                b = t2[col].iloc[k] if col in t2.columns else np.nan
                na, nb = bool(pd.isna(a)) or a == "", bool(pd.isna(b)) or b == ""     # an empty label is "" in one table and None in the other
                if col in DOCUMENTED_DEFAULT:       # a column the single call only creates when the value is given; absent means the default
                    a, na = (DOCUMENTED_DEFAULT[col], False) if na else (a, na)
                    b, nb = (DOCUMENTED_DEFAULT[col], False) if nb else (b, nb)
                ctx.true(f"element{k}/{col}_equal_in_single_and_batch", (na and nb) or (not na and not nb and a == b))
    return fn


def instances(tier):
    out = []
    all_t = set(TRAFO_OPT_NUM) | set(TRAFO_OPT_CONC)
    pats = [("all", all_t), ("required_only", set()), ("tap_no_shift", all_t - {"shift_degree"}), ("shift_only", {"shift_degree"})]
    if tier == "thorough":
        pats += [(f"without_{k}", all_t - {k}) for k in sorted(all_t)]
    for nm, pr in pats:
        for tp in ((None,) if tier == "quick" else (None, 2)):
            out.append(Inst(f"trafo_{nm}_tappos{tp}", make_trafo(pr, tp), nvars=20, samples=2, meta=dict(kind="trafo", present=sorted(pr), tap_pos=tp)))
    all_3 = set(T3_OPT_NUM) | set(T3_OPT_CONC)
    pats3 = [("all", all_3), ("required_only", set())]
    if tier == "thorough":
        pats3 += [(f"without_{k}", all_3 - {k}) for k in sorted(all_3)]
    for nm, pr in pats3:
        for tp in ((None,) if tier == "quick" else (None, 2)):
            out.append(Inst(f"trafo3w_{nm}_tappos{tp}", make_trafo3w(pr, tp), nvars=24, samples=2, meta=dict(kind="trafo3w", present=sorted(pr), tap_pos=tp)))
    all_l = set(LINE_OPT_NUM) | set(LINE_OPT_CONC)
    patsl = [("all", all_l), ("required_only", set())]
    if tier == "thorough":
        zero = {"r0_ohm_per_km", "x0_ohm_per_km", "c0_nf_per_km"}      # a type carries all three or none (create_line raises otherwise)
        patsl += [(f"without_{k}", all_l - {k}) for k in sorted(all_l - zero)] + [("without_zero_sequence", all_l - zero)]
    for nm, pr in patsl:
        out.append(Inst(f"line_{nm}", make_line(pr), nvars=16, samples=2, meta=dict(kind="line", present=sorted(pr))))
    zero = {"r0_ohm_per_km", "x0_ohm_per_km", "c0_nf_per_km"}
    mixes = [("zero_sequence_in_first_only", [all_l, all_l - zero]), ("zero_sequence_in_second_only", [set(), all_l])]
    if tier == "thorough":
        mixes += [("alpha_in_one_only", [all_l - {"alpha"}, all_l]), ("three_types", [all_l, set(), all_l - zero])]
    for nm, prs in mixes:
        out.append(Inst(f"lines_type_list_{nm}", make_line_list(prs), nvars=40, samples=2, meta=dict(kind="line", std_type="list", present=[sorted(p) for p in prs])))
    for kind in PQ_KINDS:
        out.append(Inst(f"{kind}s_optional_columns", make_pq_batch(kind, 2 if tier == "quick" else 3), nvars=8, samples=3, max_paths=400,
                        meta=dict(kind=kind, columns="controllable in {True, False, not given} and max_p_mw in {given, not given} per element")))
    return out


LEVEL_TEXT = ("Translation validation of the batch create functions against the single ones: both are executed on a standard type whose "
              "values are symbolic, up to the table-writing boundary, and the solver shows that every electrical column receives the same "
              "term in both, for all type values and each enumerated key-presence pattern.")
LEVEL_NOTE = ("Trusted: the table-writing helpers (captured, not executed), pandas casts of the concrete integer/string parameters, z3. "
              "Bounds: one element per call; trafo, trafo3w and line (the pairs that take values from a standard type); load, sgen and storage for the optional columns (real tables, concrete p/q, presence patterns forked symbolically).")
