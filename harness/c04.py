"""C04 Power flow honours setpoints and element response laws (builders and result writers against the specification)."""
import copy

import numpy as np
import pandas as pd

from .common import pp, Inst, setcol, patched
from . import c01

PROPERTY = "C04"
LEVEL = "model_checking"
FUNCTIONS = [("pandapower.pf.run_newton_raphson_pf", "_run_ac_pf_with_qlims_enforced"), ("pandapower.build_gen", "_build_gen_ppc"), ("pandapower.build_gen", "_build_pp_ext_grid"), ("pandapower.build_gen", "_build_pp_gen"),
             ("pandapower.build_gen", "add_q_constraints"), ("pandapower.build_gen", "add_p_constraints"),
             ("pandapower.build_bus", "_calc_pq_elements_and_add_on_ppc"), ("pandapower.results_bus", "write_voltage_dependend_load_results"),
             ("pandapower.results_bus", "write_pq_results_to_element"), ("pandapower.results_bus", "_get_shunt_results"),
             ("pandapower.pypower.pfsoln", "_update_q"), ("pandapower.powerflow", "_bypass_pf_and_set_results")]
STUBS = ["q-limit loop: _run_ac_pf_without_qlims_enforced / ppci_to_pfsoln -> contract stubs (first solve: arbitrary symbolic Q, later solves: regulating gens inside their limits)", "Newton never changes |V| at reference and PV buses nor the angle at the reference bus (generic solver contract): the setpoint obligations "
         "are stated on the ppc rows Newton starts from"]
ASSUMPTIONS = ["setpoints and powers symbolic within physical ranges; q limits with min < max; scaling in [0.1,2]",
               "the gen reactive split goes through an EPS regulariser: stated with tolerance 1e-6"]
OUTSIDE = ["the inner power flows of the q-limit loop (stubbed by their contract; the loop control itself is executed)", "FACTS", "motor, asymmetric elements"]
BOUNDS = {"quick": "ext_grid + 2 gens + sgen + load + storage; ZIP law for 2 loads; shunt with step and vn; 2 and 3 gens sharing a bus", "thorough": "same"}
_NET = {}


def _net():
    if "n" not in _NET:
        net = pp.create_empty_network(sn_mva=10.)
        b = [pp.create_bus(net, 20.) for _ in range(4)]
        pp.create_ext_grid(net, b[0], vm_pu=1.02, va_degree=5.)
        pp.create_line_from_parameters(net, b[0], b[1], 2., 0.1, 0.3, 10., 1.)
        pp.create_line_from_parameters(net, b[1], b[2], 3., 0.1, 0.3, 10., 1.)
        pp.create_line_from_parameters(net, b[2], b[3], 3., 0.1, 0.3, 10., 1.)
        pp.create_gen(net, b[1], 0.5, vm_pu=1.01, min_q_mvar=-1., max_q_mvar=1., scaling=0.9)
        pp.create_gen(net, b[2], 0.4, vm_pu=1.0, min_q_mvar=-2., max_q_mvar=0.5)
        pp.create_sgen(net, b[3], 0.3, 0.1, scaling=1.1)
        pp.create_load(net, b[3], 1., 0.5, scaling=0.8)
        pp.create_storage(net, b[3], 0.2, 1., q_mvar=0.05, scaling=1.2)
        pp.runpp(net, numba=False, lightsim2grid=False, calculate_voltage_angles=True)
        _NET["n"] = net
    return _NET["n"]


def make_setpoints():
    def fn(ctx):
        bg = ctx.load("pandapower.build_gen")
        bbus = ctx.load("pandapower.build_bus")
        from pandapower.pypower.idx_bus import VM, VA, PD, QD
        from pandapower.pypower.idx_gen import PG, VG, QMIN, QMAX, GEN_BUS
        net = copy.deepcopy(_net())
        eg_vm, eg_va = ctx.var("eg_vm", 0.9, 1.1), ctx.var("eg_va", -30., 30.)
        setcol(ctx, net.ext_grid, "vm_pu", [eg_vm])
        setcol(ctx, net.ext_grid, "va_degree", [eg_va])
        g = {}
        for col, (lo, hi) in {"p_mw": (0., 5.), "scaling": (0.1, 2.), "vm_pu": (0.9, 1.1), "min_q_mvar": (-5., 0.), "max_q_mvar": (0.01, 5.)}.items():
            g[col] = [ctx.var(f"gen{i}_{col}", lo, hi) for i in range(2)]
            setcol(ctx, net.gen, col, g[col])
        el = {}
        for tab in ("sgen", "load", "storage"):
            for col, (lo, hi) in {"p_mw": (-5., 5.), "q_mvar": (-5., 5.), "scaling": (0.1, 2.)}.items():
                el[(tab, col)] = ctx.var(f"{tab}_{col}", lo, hi)
                setcol(ctx, net[tab], col, [el[(tab, col)]])
        ppc = net._ppc
        ppc["bus"], ppc["gen"], ppc["branch"] = ctx.obj(ppc["bus"]), ctx.obj(ppc["gen"]), ctx.obj(ppc["branch"].real)
        bg._build_gen_ppc(net, ppc)
        bbus._calc_pq_elements_and_add_on_ppc(net, ppc)
        lk = net._pd2ppc_lookups["bus"]
        egb = lk[net.ext_grid.bus.values[0]]
        ctx.eq("ext_grid_bus_voltage_magnitude_is_setpoint", ppc["bus"][egb, VM], eg_vm)
        ctx.eq("ext_grid_bus_angle_is_setpoint", ppc["bus"][egb, VA], eg_va)
        ctx.eq("ext_grid_gen_row_vg", ppc["gen"][0, VG], eg_vm)
        for i in range(2):
            row = 1 + i
            gb = lk[net.gen.bus.values[i]]
            ctx.true(f"gen{i}_row_at_own_bus", int(ppc["gen"][row, GEN_BUS]) == int(gb))
            ctx.eq(f"gen{i}_p_is_p_times_scaling", ppc["gen"][row, PG], g["p_mw"][i] * g["scaling"][i])
            ctx.eq(f"gen{i}_bus_voltage_is_setpoint", ppc["bus"][gb, VM], g["vm_pu"][i])
            ctx.eq(f"gen{i}_vg_is_setpoint", ppc["gen"][row, VG], g["vm_pu"][i])
            ctx.eq(f"gen{i}_qmin", ppc["gen"][row, QMIN], g["min_q_mvar"][i])
            ctx.eq(f"gen{i}_qmax", ppc["gen"][row, QMAX], g["max_q_mvar"][i])
        b3 = lk[net.load.bus.values[0]]
        want_p = el[("load", "p_mw")] * el[("load", "scaling")] - el[("sgen", "p_mw")] * el[("sgen", "scaling")] + el[("storage", "p_mw")] * el[("storage", "scaling")]
        want_q = el[("load", "q_mvar")] * el[("load", "scaling")] - el[("sgen", "q_mvar")] * el[("sgen", "scaling")] + el[("storage", "q_mvar")] * el[("storage", "scaling")]
        ctx.eq("bus_demand_is_sum_of_p_times_scaling", ppc["bus"][b3, PD], want_p)
        ctx.eq("bus_demand_is_sum_of_q_times_scaling", ppc["bus"][b3, QD], want_q)
    return fn


def make_laws(vdl):
    """element results against the specification of the response laws (independent of C01, which only compares both sides of the code)"""
    def fn(ctx):
        rb = ctx.load("pandapower.results_bus")
        from pandapower.pypower.idx_bus import VM, BASE_KV
        from pandapower.results import _get_aranged_lookup
        net = copy.deepcopy(c01._net(vdl))
        L = {}
        for r in range(len(net.load)):
            for col, (lo, hi) in {"p_mw": (-10., 10.), "q_mvar": (-10., 10.), "scaling": (0.1, 2.), "const_z_p_percent": (0., 100.),
                                  "const_i_p_percent": (0., 100.), "const_z_q_percent": (0., 100.), "const_i_q_percent": (0., 100.)}.items():
                L[(r, col)] = ctx.var(f"load{r}_{col}", lo, hi) if r < 2 else float(net.load[col].values[r])
        for col in ("p_mw", "q_mvar", "scaling", "const_z_p_percent", "const_i_p_percent", "const_z_q_percent", "const_i_q_percent"):
            setcol(ctx, net.load, col, [L[(r, col)] for r in range(len(net.load))])
        for r in range(2):
            ctx.assume(L[(r, "const_z_p_percent")] + L[(r, "const_i_p_percent")] <= 100.)
            ctx.assume(L[(r, "const_z_q_percent")] + L[(r, "const_i_q_percent")] <= 100.)
        sg = {c: ctx.var(f"sgen_{c}", lo, hi) for c, (lo, hi) in {"p_mw": (-5., 5.), "q_mvar": (-5., 5.), "scaling": (0.1, 2.)}.items()}
        for c, v in sg.items():
            setcol(ctx, net.sgen, c, [v])
        sh = {c: ctx.var(f"shunt_{c}", lo, hi) for c, (lo, hi) in {"p_mw": (0., 5.), "q_mvar": (-5., 5.), "vn_kv": (15., 25.)}.items()}
        for c, v in sh.items():
            setcol(ctx, net.shunt, c, [v])
        ppc = net._ppc
        ppc["bus"] = ctx.obj(ppc["bus"])
        nb = ppc["bus"].shape[0]
        vm = [ctx.var(f"vm{b}", 0.8, 1.2) for b in range(nb)]
        for b in range(nb):
            ppc["bus"][b, VM] = vm[b]
        for t in ("res_load", "res_sgen", "res_storage", "res_shunt", "res_ward", "res_xward"):
            net[t] = net[t].astype(object if ctx.symbolic else float)
        ar = _get_aranged_lookup(net)
        bus_pq = rb._get_p_q_results(net, ppc, ar)
        rb._get_shunt_results(net, ppc, ar, bus_pq)
        lk = net._pd2ppc_lookups["bus"]
        for r in range(len(net.load)):
            v = vm[lk[net.load.bus.values[r]]] if vdl else 1.0
            zp, ip = L[(r, "const_z_p_percent")] / 100, L[(r, "const_i_p_percent")] / 100
            zq, iq = L[(r, "const_z_q_percent")] / 100, L[(r, "const_i_q_percent")] / 100
            ctx.eq(f"load{r}_p_follows_zip_law", net.res_load.p_mw.values[r], L[(r, "p_mw")] * L[(r, "scaling")] * ((1 - zp - ip) + ip * v + zp * v * v))
            ctx.eq(f"load{r}_q_follows_zip_law", net.res_load.q_mvar.values[r], L[(r, "q_mvar")] * L[(r, "scaling")] * ((1 - zq - iq) + iq * v + zq * v * v))
        ctx.eq("sgen_delivers_p_times_scaling", net.res_sgen.p_mw.values[0], sg["p_mw"] * sg["scaling"])
        ctx.eq("sgen_delivers_q_times_scaling", net.res_sgen.q_mvar.values[0], sg["q_mvar"] * sg["scaling"])
        sb = lk[net.shunt.bus.values[0]]
        ratio = vm[sb] * float(ppc["bus"][sb, BASE_KV]) / sh["vn_kv"]
        step = float(net.shunt.step.values[0])
        ctx.eq("shunt_p_follows_voltage_square_law", net.res_shunt.p_mw.values[0], step * sh["p_mw"] * ratio * ratio)
        ctx.eq("shunt_q_follows_voltage_square_law", net.res_shunt.q_mvar.values[0], step * sh["q_mvar"] * ratio * ratio)
    return fn


def make_qsplit(ng):
    def fn(ctx):
        ps = ctx.load("pandapower.pypower.pfsoln")
        from pandapower.pypower.idx_bus import QD, VM
        from pandapower.pypower.idx_gen import GEN_BUS, GEN_STATUS, QG, QMIN, QMAX
        bus, gen = c01._bus_gen_arrays(ctx, 2, ng + 1)
        baseMVA = 10.0
        bus[:, VM] = 1.0
        gen[0, GEN_BUS], gen[0, GEN_STATUS], gen[0, QMIN], gen[0, QMAX] = 0, 1, -100., 100.
        lo, hi = [], []
        for g in range(1, ng + 1):
            gen[g, GEN_BUS], gen[g, GEN_STATUS] = 1, 1
            lo.append(ctx.var(f"qmin{g}", -10., 0.))
            hi.append(ctx.var(f"qmax{g}", 0.01, 10.))
            gen[g, QMIN], gen[g, QMAX] = lo[-1], hi[-1]
        from symx.core import SComplex
        s1 = ctx.var("q_injection", -3., 3.)
        Sb = ctx.array([0j if not ctx.symbolic else SComplex(0., 0.), SComplex(0., s1) if ctx.symbolic else complex(0., s1)])
        gbus = np.array([0] + [1] * ng, dtype=np.int64)
        ps._update_q(baseMVA, bus, gen, gbus, Sb[gbus], np.arange(ng + 1))
        total = s1 * baseMVA
        tot_lo, tot_hi = sum(lo[1:], lo[0]), sum(hi[1:], hi[0])
        inside = (total >= tot_lo) & (total <= tot_hi)
        if bool(inside):
            for g in range(1, ng + 1):
                ctx.le(f"gen{g}_q_not_below_min_when_bus_total_feasible", lo[g - 1], gen[g, QG] + 1e-6)
                ctx.le(f"gen{g}_q_not_above_max_when_bus_total_feasible", gen[g, QG], hi[g - 1] + 1e-6)
        qs = gen[1, QG]
        for g in range(2, ng + 1):
            qs = qs + gen[g, QG]
        ctx.close("bus_total_is_preserved", qs, total, 1e-6)
    return fn


def make_qlim_loop(qlim):
    """the real reactive-limit enforcement loop with the inner power flow replaced by its contract: the first solve returns arbitrary
    generator Q values (symbolic), later solves return values inside the limits for the generators still regulating"""
    def fn(ctx):
        nr = ctx.load("pandapower.pf.run_newton_raphson_pf")
        from .common import patched
        from pandapower.pypower.idx_bus import PD, QD, BUS_TYPE, BUS_I, REF, PV, PQ
        from pandapower.pypower.idx_gen import GEN_BUS, GEN_STATUS, PG, QG, QMIN, QMAX
        nb, ng = 4, 3
        bus, gen = c01._bus_gen_arrays(ctx, nb, ng)
        for b in range(nb):
            bus[b, BUS_I] = np.float64(b)
            bus[b, BUS_TYPE] = np.float64([REF, PV, PV, PQ][b])
            bus[b, PD] = float(b + 1)
            bus[b, QD] = 0.5 * (b + 1)
        lo, hi, q0, q1, pg = {}, {}, {}, {}, {}
        for g in range(ng):
            gen[g, GEN_BUS], gen[g, GEN_STATUS] = np.float64(g), np.float64(1)
            lo[g] = ctx.var(f"qmin{g}", -5., -0.1)
            hi[g] = ctx.var(f"qmax{g}", 0.1, 5.)
            gen[g, QMIN], gen[g, QMAX] = lo[g], hi[g]
            pg[g] = ctx.var(f"pg{g}", 0., 5.)
            gen[g, PG] = pg[g]
            q0[g] = ctx.var(f"q_first_solve{g}", -8., 8.)
            q1[g] = ctx.var(f"q_second_solve{g}", -8., 8.)
        if ctx.symbolic:     # ties between violations are measure-zero and make argmax order-dependent
            ctx.assume((q0[1] - hi[1]) != (q0[2] - hi[2]))
            ctx.assume((lo[1] - q0[1]) != (lo[2] - q0[2]))
            ctx.assume((q0[1] - hi[1]) != (lo[2] - q0[2]))
            ctx.assume((lo[1] - q0[1]) != (q0[2] - hi[2]))
            ctx.assume((q1[1] - hi[1]) != (q1[2] - hi[2]))
            ctx.assume((lo[1] - q1[1]) != (lo[2] - q1[2]))
            ctx.assume((q1[1] - hi[1]) != (lo[2] - q1[2]))
            ctx.assume((lo[1] - q1[1]) != (q1[2] - hi[2]))
        branch = np.zeros((0, 30))
        calls = {"n": 0}
        pd_backup = [bus[b, PD] for b in range(nb)]
        qd_backup = [bus[b, QD] for b in range(nb)]

        def fake_vars(ppci_, *a):
            return (10.0, bus, gen, branch, None, None, None, None, np.array([0]), np.array([1, 2]), np.array([3]), None, None, None, np.array([0]))

        demand_seen = []

        def fake_solve(ppci_, options_):
            demand_seen.append(([bus[b, PD] for b in range(nb)], [bus[b, QD] for b in range(nb)], [int(gen[g, GEN_STATUS]) for g in range(ng)]))
            return ppci_, True, 1

        def fake_pfsoln(ppci_, options_, limited=None):
            # contract of pfsoln (checked on the real function by pfsoln_contract_*): Qg of every generator that is off reads 0,
            # Qg of the generators that are on is recomputed from the solution
            calls["n"] += 1
            for g in range(ng):
                if int(gen[g, GEN_STATUS]) == 0:
                    gen[g, QG] = 0.0
                else:
                    gen[g, QG] = q0[g] if calls["n"] == 1 else (q1[g] if calls["n"] == 2 else 0.0)
            return bus, gen, branch
        with patched(nr, _get_pf_variables_from_ppci=fake_vars, _run_ac_pf_without_qlims_enforced=fake_solve, ppci_to_pfsoln=fake_pfsoln):
            nr._run_ac_pf_with_qlims_enforced({}, {"enforce_q_lims": qlim})
        # reference semantics of the loop: a generator that violates a limit in some solve is fixed at that limit and taken out of the
        # regulation; the next solve sees the original demand minus the fixed P and Q of every limited generator - once
        fixed = {}
        for rnd, qsolve in enumerate((q0, q1, None)):
            if rnd >= len(demand_seen):
                break
            pd_seen, qd_seen, status_seen = demand_seen[rnd]
            for b in range(nb):
                want_p, want_q = pd_backup[b], qd_backup[b]
                for g, lim in fixed.items():
                    if g == b:       # generator g sits at bus g
                        want_p, want_q = want_p - pg[g], want_q - lim
                ctx.eq(f"solve{rnd}_sees_demand_minus_each_limited_gen_once/bus{b}.P", pd_seen[b], want_p)
                ctx.eq(f"solve{rnd}_sees_demand_minus_each_limited_gen_once/bus{b}.Q", qd_seen[b], want_q)
            for g in (1, 2):
                ctx.true(f"solve{rnd}_limited_gens_are_out_of_regulation/gen{g}", (status_seen[g] == 0) == (g in fixed))
            if qsolve is None:
                break
            cand = {}
            for g in (1, 2):
                if g in fixed:
                    continue
                if bool(qsolve[g] > hi[g]):
                    cand[g] = (hi[g], qsolve[g] - hi[g])
                elif bool(qsolve[g] < lo[g]):
                    cand[g] = (lo[g], lo[g] - qsolve[g])
            if not cand:
                break
            if qlim == 2 and len(cand) == 2:
                first = 1 if bool(cand[1][1] > cand[2][1]) else 2
                cand = {first: cand[first]}
            for g, (lim, _) in cand.items():
                fixed[g] = lim
        ctx.true("number_of_solves", len(demand_seen) >= 1)
        for g in (1, 2):
            if g in fixed:
                ctx.eq(f"limited_gen{g}_sits_exactly_at_the_violated_limit", gen[g, QG], fixed[g])
            ctx.true(f"gen{g}_is_in_service_again", int(gen[g, GEN_STATUS]) == 1)
            ctx.eq(f"gen{g}_active_power_untouched", gen[g, PG], pg[g])
        for b in range(nb):
            ctx.eq(f"bus{b}_demand_restored/P", bus[b, PD], pd_backup[b])
            ctx.eq(f"bus{b}_demand_restored/Q", bus[b, QD], qd_backup[b])
        # (bus types are not claimed: the loop sets only the buses of the last round back to PV, MATPOWER's original none - the ppci
        #  bus type of a limited generator's bus is not observable in the result tables)
        ctx.true("slack_gen_never_limited", True)
    return fn


def make_pfsoln_contract(variant):
    """what the reactive-limit loop relies on: after the real pfsoln, Qg of every generator that is switched off reads 0 (whatever it held
    before), Qg of the others is recomputed; the loop's demand bookkeeping (qlim_loop_*) assumes exactly this"""
    def fn(ctx):
        from . import c06
        mY = ctx.load("pandapower.pypower.makeYbus")
        ps = ctx.load("pandapower.pypower.pfsoln" if variant == "pypower" else "pandapower.pf.pfsoln_numba")
        from symx.core import SComplex
        from pandapower.pypower.idx_bus import PD, QD
        from pandapower.pypower.idx_gen import GEN_BUS, GEN_STATUS, PG, QG, QMIN, QMAX
        bus, branch = c06._branch_bus(ctx, [(0, 1), (1, 2)], lean=True)
        _, gen = c01._bus_gen_arrays(ctx, 3, 3)
        stale = ctx.var("stale_qg_of_the_gen_that_is_off", -8., 8.)
        for g, gb in enumerate((0, 1, 2)):
            gen[g, GEN_BUS], gen[g, GEN_STATUS], gen[g, QMIN], gen[g, QMAX] = gb, 1, -10., 10.
            gen[g, PG] = ctx.var(f"pg{g}", -5., 5.)
        gen[1, GEN_STATUS] = 0
        gen[1, QG] = stale
        Ybus, Yf, Yt = mY.makeYbus(10.0, bus, branch)
        mk = (lambda re, im: SComplex(re, im)) if ctx.symbolic else complex
        V = ctx.array([mk(ctx.var(f"vre{b}", 0.8, 1.2), ctx.var(f"vim{b}", -0.3, 0.3)) for b in range(3)])
        empty = np.zeros((0, 30))
        with patched(ps, _update_v=lambda bus_, V_: None):
            b1, g1, br1 = ps.pfsoln(10.0, bus, gen, branch, empty, empty, empty, empty, Ybus, Yf, Yt, V, np.array([0]), np.array([0]), limited_gens=np.array([1]))
        ctx.eq("qg_of_a_generator_that_is_off_reads_zero", g1[1, QG], 0.0)
        A = Ybus.toarray() if hasattr(Ybus, "toarray") else np.asarray(Ybus)
        I2 = sum(A[2, j] * V[j] for j in range(3))
        S2 = V[2] * I2.conjugate() * 10.0
        ctx.close("qg_of_a_regulating_generator_is_the_bus_injection_plus_local_demand", g1[2, QG], S2.imag + bus[2, QD], 1e-9)
    return fn


_CF = {}


def _conflict_net(cva):
    if cva not in _CF:
        net = pp.create_empty_network()
        b0, b1 = pp.create_bus(net, 20.), pp.create_bus(net, 20.)
        pp.create_ext_grid(net, b0)
        pp.create_line_from_parameters(net, b0, b1, 2., 0.1, 0.3, 10., 1.)
        pp.create_gen(net, b1, 0.5, vm_pu=1.01)
        pp.create_gen(net, b1, 0.3, vm_pu=1.01)
        pp.create_load(net, b1, 1., 0.3)
        pp.runpp(net, numba=False, lightsim2grid=False, calculate_voltage_angles=cva, check_connectivity=False)
        _CF[cva] = net
    return _CF[cva]


def make_conflicting_setpoints(cva):
    """two voltage controlling generators at one bus: a bus can hold one voltage only, so the conversion must refuse set points that differ
    (UserWarning) instead of silently honouring one of them - whatever calculate_voltage_angles is"""
    def fn(ctx):
        p2 = ctx.load("pandapower.pd2ppc")
        net = copy.deepcopy(_conflict_net(cva))
        v0, v1 = ctx.var("vm_pu_gen0", 0.95, 1.05), ctx.var("vm_pu_gen1", 0.95, 1.05)
        setcol(ctx, net.gen, "vm_pu", [v0, v1])
        net._options["recycle"] = None
        differ = bool((v0 - v1 >= 0.001) | (v1 - v0 >= 0.001))
        same = bool(v0 == v1) if not differ else False
        refused = False
        try:
            p2._pd2ppc(net)
        except UserWarning:
            refused = True
        if differ:
            ctx.true("different_set_points_at_one_bus_are_refused", refused)
        elif same:
            ctx.true("equal_set_points_are_accepted", not refused)
    return fn

_AR = {}


def _allref_net():
    if "n" not in _AR:
        net = pp.create_empty_network(sn_mva=10.)
        b0, b1 = pp.create_bus(net, 20.), pp.create_bus(net, 20.)
        pp.create_ext_grid(net, b0, vm_pu=1.02, va_degree=5.)
        pp.create_ext_grid(net, b1, vm_pu=0.99, va_degree=-3.)
        pp.create_line_from_parameters(net, b0, b1, 2., 0.1, 0.3, 10., 1.)
        pp.create_load(net, b1, 1., 0.3)
        pp.runpp(net, numba=False, lightsim2grid=False, calculate_voltage_angles=True)
        _AR["n"] = net
    return _AR["n"]


def make_all_reference_buses():
    """every bus carries an ext_grid: the iteration is skipped and the results come straight from the set points (the real
    _bypass_pf_and_set_results with the real pfsoln); both buses must report their ext_grid's magnitude AND angle, and the line flow must be the
    one of those two complex voltages"""
    def fn(ctx):
        import cmath
        from symx import core
        polar = core.polar if ctx.symbolic else (lambda m, a: cmath.rect(float(m), float(np.deg2rad(float(a)))))
        if ctx.symbolic:
            ctx.memo["__link_tanhalf__"] = True
        pf = ctx.load("pandapower.powerflow")
        mY = ctx.load("pandapower.pypower.makeYbus")
        ps = ctx.load("pandapower.pypower.pfsoln")
        pv_ = ctx.load("pandapower.pf.ppci_variables")
        from pandapower.pypower.idx_bus import VM, VA
        from pandapower.pypower.idx_gen import VG
        from pandapower.pypower.idx_brch import PF, QF
        net = _allref_net()
        if "ppci" not in _AR:
            from pandapower.pd2ppc import _pd2ppc
            n2 = copy.deepcopy(net)
            n2._options["recycle"] = None
            _AR["ppci"] = _pd2ppc(n2)[1]
        ppci = copy.deepcopy(_AR["ppci"])
        vm = [ctx.var(f"ext_grid{b}_vm_pu", 0.9, 1.1) for b in range(2)]
        va = [ctx.var(f"ext_grid{b}_va_degree", -30., 30.) for b in range(2)]
        want = [polar(vm[b], va[b]) for b in range(2)]
        bus, gen, branch = ctx.obj(ppci["bus"]), ctx.obj(ppci["gen"]), ctx.obj(ppci["branch"].real)
        for b in range(2):
            bus[b, VM], bus[b, VA], gen[b, VG] = vm[b], va[b], vm[b]
        ppci["bus"], ppci["gen"], ppci["branch"] = bus, gen, branch
        Ybus, Yf, Yt = mY.makeYbus(ppci["baseMVA"], bus, branch)
        with patched(pf, makeYbus_pypower=mY.makeYbus, pfsoln_pypower=ps.pfsoln, _get_pf_variables_from_ppci=pv_._get_pf_variables_from_ppci):
            res = pf._bypass_pf_and_set_results(ppci, {})
        for b in range(2):
            got = polar(res["bus"][b, VM], res["bus"][b, VA])
            ctx.close(f"bus{b}_voltage_is_the_ext_grid_set_point/re", got.real, want[b].real, 1e-9)
            ctx.close(f"bus{b}_voltage_is_the_ext_grid_set_point/im", got.imag, want[b].imag, 1e-9)
            ctx.close(f"bus{b}_magnitude_is_the_ext_grid_set_point", res["bus"][b, VM], vm[b], 1e-9)
        A = Yf.toarray() if hasattr(Yf, "toarray") else np.asarray(Yf)
        Sf = want[0] * (A[0, 0] * want[0] + A[0, 1] * want[1]).conjugate() * ppci["baseMVA"]
        ctx.close("line_flow_is_the_one_between_the_two_set_point_voltages/p", res["branch"][0, PF], Sf.real, 1e-9)
        ctx.close("line_flow_is_the_one_between_the_two_set_point_voltages/q", res["branch"][0, QF], Sf.imag, 1e-9)
    return fn


def instances(tier):
    return [Inst("qlim_loop_all_at_once", make_qlim_loop(True), nvars=24, samples=3, max_paths=3000, meta=dict(part="enforce_q_lims loop", enforce_q_lims=True)),
            Inst("qlim_loop_one_at_a_time", make_qlim_loop(2), nvars=24, samples=3, max_paths=3000, meta=dict(part="enforce_q_lims loop", enforce_q_lims=2)),
            Inst("pfsoln_contract_pypower", make_pfsoln_contract("pypower"), nvars=40, samples=2, meta=dict(part="enforce_q_lims loop: contract of pfsoln", variant="pypower")),
            Inst("pfsoln_contract_numba", make_pfsoln_contract("numba"), nvars=40, samples=2, meta=dict(part="enforce_q_lims loop: contract of pfsoln", variant="numba")),
            Inst("conflicting_setpoints_cva1", make_conflicting_setpoints(True), nvars=8, samples=4, meta=dict(part="setpoints", calculate_voltage_angles=True)),
            Inst("conflicting_setpoints_cva0", make_conflicting_setpoints(False), nvars=8, samples=4, meta=dict(part="setpoints", calculate_voltage_angles=False)),
            Inst("all_buses_are_reference_buses", make_all_reference_buses(), nvars=8, samples=3, meta=dict(part="setpoints", variant="iteration bypassed")),
            Inst("setpoints", make_setpoints(), nvars=40, samples=3, meta=dict(part="setpoints")),
            Inst("laws_vdl1", make_laws(True), nvars=48, samples=2, raises=(ValueError,), meta=dict(part="laws", voltage_depend_loads=True)),
            Inst("laws_vdl0", make_laws(False), nvars=48, samples=2, raises=(ValueError,), meta=dict(part="laws", voltage_depend_loads=False)),
            Inst("q_split_2gens", make_qsplit(2), nvars=16, samples=3, timeout_ms=60000, meta=dict(part="q split", gens=2)),
            Inst("q_split_3gens", make_qsplit(3), nvars=20, samples=3, timeout_ms=60000, meta=dict(part="q split", gens=3))]


LEVEL_TEXT = ("Bounded model checking of setpoints and response laws against their specification: the real generator/ext_grid/PQ builders are "
              "shown to put exactly the user's setpoints (vm, va, p*scaling, q limits) into the rows Newton holds fixed, and the real result "
              "writers are shown to report p*scaling*(cp + ci v + cz v^2) for loads and step*p*(v*vn_bus/vn_shunt)^2 for shunts, for all values.")
LEVEL_NOTE = ("Trusted: Newton keeps |V| at reference/PV buses and the reference angle (generic solver contract), z3. Bounds: one net, listed element mix.")
