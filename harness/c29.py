"""C29 Protection devices trip later for smaller currents, never earlier."""
import numpy as np
import pandas as pd
import z3

from .common import Inst
from symx import core

PROPERTY = "C29"
LEVEL = "model_checking"
FUNCTIONS = [("pandapower.protection.protection_devices.ocrelay", "OCRelay.protection_function"),
             ("pandapower.protection.protection_devices.ocrelay", "OCRelay._select_k_alpha"),
             ("pandapower.protection.protection_devices.fuse", "Fuse.protection_function")]
STUBS = ["(i/I_s)**0.02 (standard inverse): uninterpreted strictly increasing function with pow(1)=1, congruence between applications",
         "fuse melting characteristic: uninterpreted non-negative non-increasing function of the current (contract of monotone characteristic data); "
         "its interpolation numerics are C32's subject",
         "devices are built with object.__new__ and the attributes protection_function reads; net.res_switch_sc / res_switch are one-row frames, res_line / res_line_sc one-row frames with different currents"]
ASSUMPTIONS = ["consistently graded settings: 0 < I_s <= I_g <= I_gg, 0 <= t_gg <= t_g, tms > 0, t_grade >= 0, and for IDTOC t_g <= IDMT time at I_g",
               "two currents 0 < i1 <= i2 seen by the same device (2-safety)"]
OUTSIDE = ["automatic time_grading (graph search over line paths; the manual DataFrame path is covered)", "pick-up current derivation in OCRelay.__init__", "plotting"]
BOUNDS = {"quick": "DTOC; IDMT/IDTOC x {standard, very, extremely, long inverse}; fuse; scenario sc/pp/invalid", "thorough": "same"}


def _sb(c):
    return c.t if isinstance(c, core.SBool) else z3.BoolVal(bool(c))


def _install_pow(ctx):
    if not ctx.symbolic:
        return

    def axioms(c, x, y, apps):
        c.side += [y.num() > 0, z3.Implies(_sb(x > 1), y.num() > 1), z3.Implies(_sb(x < 1), y.num() < 1), z3.Implies(_sb(x == 1), y.num() == 1)]
        for xx, yy in apps:
            c.side += [z3.Implies(_sb(x < xx), _sb(y < yy)), z3.Implies(_sb(x > xx), _sb(y > yy))]

    ctx.memo["__pow_hook__"] = lambda base, n: core.ufun(f"pow{n}", base, lambda v: v ** float(n), axioms)


def _net(ctx, i):
    net = type("N", (), {})()
    net.res_switch_sc = pd.DataFrame({"ikss_ka": ctx.series([i])})
    net.res_switch = pd.DataFrame({"i_ka": ctx.series([i * 0.5])})
    # the neighbouring tables a device could read by mistake carry different currents (an open switch sees none of its line's current)
    net.switch = pd.DataFrame({"bus": [0], "element": [0], "et": ["l"], "closed": [True]})
    net.res_line = pd.DataFrame({"i_ka": ctx.series([i * 0.3]), "i_from_ka": ctx.series([i * 0.3]), "i_to_ka": ctx.series([i * 0.29])})
    net.res_line_sc = pd.DataFrame({"ikss_ka": ctx.series([i * 0.7])})
    return net


def make_relay(rtype, curve):
    def fn(ctx):
        oc = ctx.load("pandapower.protection.protection_devices.ocrelay")
        _install_pow(ctx)
        r = object.__new__(oc.OCRelay)
        r.switch_index = 0
        r.oc_relay_type = rtype
        r.curve_type = curve
        r.activation_parameter = "i_ka"
        r.tripped = False
        if rtype != "DTOC":
            r._select_k_alpha()
        I_s = ctx.var("I_s", 0.05, 2.)
        I_g = ctx.var("I_g", 0.05, 5.)
        I_gg = ctx.var("I_gg", 0.05, 20.)
        t_g, t_gg = ctx.var("t_g", 0., 10.), ctx.var("t_gg", 0., 10.)
        tms, t_grade = ctx.var("tms", 0.01, 2.), ctx.var("t_grade", 0., 2.)
        ctx.assume(I_s <= I_g)
        ctx.assume(I_g <= I_gg)
        ctx.assume(t_gg <= t_g)
        r.I_s, r.I_g, r.I_gg, r.t_g, r.t_gg, r.tms, r.t_grade = I_s, I_g, I_gg, t_g, t_gg, tms, t_grade
        i1, i2 = ctx.var("i1", 0.001, 30.), ctx.var("i2", 0.001, 30.)
        ctx.assume(i1 <= i2)
        if rtype == "IDTOC":
            # grading: the definite-time stage is not slower than the inverse curve where it takes over
            ctx.assume(I_s < I_g)
            t_at_Ig = (tms * r.k) / (((I_g / I_s) ** r.alpha) - 1) + t_grade
            ctx.assume(t_g <= t_at_Ig)
        out = []
        for i in (i1, i2):
            res = r.protection_function(_net(ctx, i), "sc")
            out.append((res, r.tripped))
        (r1, trip1), (r2, trip2) = out
        # the same device evaluated again at the smaller current, after it has seen the larger one: no memory of earlier evaluations
        r1b = r.protection_function(_net(ctx, i1), "sc")
        ctx.true("trip_decision_has_no_memory_of_earlier_evaluations", bool(r1b["trip_melt"]) == bool(r1["trip_melt"]))
        t1, t2 = r1["trip_melt_time_s"], r2["trip_melt_time_s"]
        ctx.eq("activation_value_is_switch_current", r1["activation_parameter_value"], i1)
        inf1 = isinstance(t1, float) and np.isinf(t1)
        inf2 = isinstance(t2, float) and np.isinf(t2)
        if inf1:
            ctx.true("smaller_current_never_trips_earlier", True)
        elif inf2:
            ctx.true("smaller_current_never_trips_earlier", False)
        else:
            ctx.le("smaller_current_never_trips_earlier", t2, t1)
        pick = I_g if rtype == "DTOC" else I_s
        above = i1 > pick
        ctx.true("trips_exactly_above_pickup", (above == bool(r1["trip_melt"])) if isinstance(above, core.SBool) else bool(above) == bool(r1["trip_melt"]))
        ctx.true("untripped_reports_infinite_time", bool(r1["trip_melt"]) != inf1)
        res_pp = r.protection_function(_net(ctx, i1), "pp")
        ctx.eq("pp_scenario_reads_res_switch", res_pp["activation_parameter_value"], i1 * 0.5)
        try:
            r.protection_function(_net(ctx, i1), "other")
            ctx.true("unknown_scenario_raises", False)
        except ValueError:
            ctx.true("unknown_scenario_raises", True)
    return fn


def make_fuse():
    def fn(ctx):
        fu = ctx.load("pandapower.protection.protection_devices.fuse")
        f = object.__new__(fu.Fuse)
        f.switch_index = 0
        f.characteristic_index = 0
        f.activation_parameter = "i_ka"
        f.tripped = False
        i_start, i_stop = ctx.var("i_start_a", 1., 5000.), ctx.var("i_stop_a", 1., 50000.)
        ctx.assume(i_start <= i_stop)
        f.i_start_a, f.i_stop_a = i_start, i_stop

        def conc(x):
            return 1e4 / float(x)
        if ctx.symbolic:
            def axioms(c, x, y, apps):
                c.side += [y.num() >= 0]
                for xx, yy in apps:
                    c.side += [z3.Implies(_sb(x <= xx), _sb(y >= yy)), z3.Implies(_sb(x >= xx), _sb(y <= yy))]
            char = lambda x: core.ufun("melt_time", x, conc, axioms)
        else:
            char = conc
        i1, i2 = ctx.var("i1", 0.0001, 60.), ctx.var("i2", 0.0001, 60.)
        ctx.assume(i1 <= i2)
        out = []
        for i in (i1, i2):
            net = _net(ctx, i)
            net.characteristic = pd.DataFrame({"object": [char]})
            res = f.protection_function(net, "sc")
            out.append(res)
        net = _net(ctx, i1)
        net.characteristic = pd.DataFrame({"object": [char]})
        again = f.protection_function(net, "sc")
        ctx.true("melt_decision_has_no_memory_of_earlier_evaluations", bool(again["trip_melt"]) == bool(out[0]["trip_melt"]))
        t1, t2 = out[0]["trip_melt_time_s"], out[1]["trip_melt_time_s"]
        inf1 = isinstance(t1, float) and np.isinf(t1)
        inf2 = isinstance(t2, float) and np.isinf(t2)
        if inf1:
            ctx.true("smaller_current_never_melts_earlier", True)
        elif inf2:
            ctx.true("smaller_current_never_melts_earlier", False)
        else:
            ctx.le("smaller_current_never_melts_earlier", t2, t1)
        above = i1 * 1000 >= i_start
        ctx.true("melts_exactly_from_start_current", (above == bool(out[0]["trip_melt"])) if isinstance(above, core.SBool) else bool(above) == bool(out[0]["trip_melt"]))
        ctx.eq("activation_value_is_switch_current", out[0]["activation_parameter_value"], i1)
    return fn


def make_manual_time_settings(variant):
    """manual time settings (a DataFrame per switch): what the relay reads as t>, t>> (DTOC) resp. tms, t_grade (IDMT) for its switch are
    the values the user entered for that switch - the real time_grading, read as OCRelay.__init__ reads its result"""
    def fn(ctx):
        import pandas as pd
        oc = ctx.load("pandapower.protection.protection_devices.ocrelay")
        n = 3
        if variant == "DTOC":
            cols = ["switch_id", "t_gg", "t_g"]
        else:
            cols = ["switch_id", "tms", "t_grade"]
        vals = {c: [ctx.var(f"{c}_sw{k}", 0., 10.) for k in range(n)] for c in cols[1:]}
        df = pd.DataFrame({"switch_id": list(range(n))})
        for c in cols[1:]:
            df[c] = ctx.series(vals[c])
        out = oc.time_grading(None, df)
        for k in range(n):
            if variant == "DTOC":
                ctx.eq(f"low_set_stage_time_is_the_entered_t_g/switch{k}", out.t_g[k], vals["t_g"][k])
                ctx.eq(f"high_set_stage_time_is_the_entered_t_gg/switch{k}", out.t_gg[k], vals["t_gg"][k])
            else:
                ctx.eq(f"time_grading_delay_is_the_entered_t_grade/switch{k}", out.t_g[k], vals["t_grade"][k])      # OCRelay: t_grade = time_grading.t_g
                ctx.eq(f"time_multiplier_is_the_entered_tms/switch{k}", out.t_gg[k], vals["tms"][k])            # OCRelay: tms = time_grading.t_gg
            ctx.true(f"row_belongs_to_its_switch/switch{k}", int(out.switch_id[k]) == k)
    return fn


def instances(tier):
    out = [Inst("relay_DTOC", make_relay("DTOC", "standard_inverse"), nvars=20, samples=3, meta=dict(device="OCRelay", type="DTOC"))]
    for rt in ("IDMT", "IDTOC"):
        for cv in ("standard_inverse", "very_inverse", "extremely_inverse", "long_inverse"):
            out.append(Inst(f"relay_{rt}_{cv}", make_relay(rt, cv), nvars=24, samples=3, timeout_ms=60000, meta=dict(device="OCRelay", type=rt, curve=cv)))
    out.append(Inst("fuse", make_fuse(), nvars=16, samples=3, meta=dict(device="Fuse")))
    for v in ("DTOC", "IDMT"):
        out.append(Inst(f"manual_time_settings_{v}", make_manual_time_settings(v), nvars=12, samples=3, meta=dict(device="OCRelay", part="time_grading with a DataFrame", type=v)))
    return out


LEVEL_TEXT = ("2-safety bounded model checking of the real protection functions: the same device (symbolic, consistently graded settings) sees "
              "two symbolic currents i1 <= i2 and z3 shows t(i2) <= t(i1), tripping exactly above the pick-up value and the reported activation "
              "current being the switch current of the chosen result table, for all settings and currents.")
LEVEL_NOTE = ("Trusted: the contracts of the two uninterpreted functions (power with exponent 0.02, melting curve), z3. Bounds: one device, two currents.")
