"""C15 Parallel contingency analysis equals the sequential analysis (aggregation kernels)."""
import itertools

import numpy as np

from .common import Inst
from . import c14
from symx.core import issym

PROPERTY = "C15"
LEVEL = "translation_validation"
FUNCTIONS = [("pandapower.contingency.contingency_parallel", "_update_contingency_results_parallel"),
             ("pandapower.contingency.contingency", "_update_contingency_results"),
             ("pandapower.contingency.contingency_parallel", "_run_single_contingency"),
             ("pandapower.contingency.contingency_parallel", "run_contingency_parallel"), ("pandapower.contingency.contingency", "run_contingency")]
STUBS = ["multiprocessing.Pool.map by its contract (ordered list of worker returns); worker result packs are symbolic vectors with the "
         "outaged element's own entry as a real run produces it (0.0 / NaN)", "power flows as in C14"]
ASSUMPTIONS = c14.ASSUMPTIONS
OUTSIDE = ["process start-up, pickling of the net into the workers", "run_contingency_ls2g"]
BOUNDS = {"quick": "3 lines, 1 bus; case lists of length 2 (all 3 aggregation paths) and 3 (without bus); the real run_contingency_parallel vs run_contingency on 2 lines + trafo + trafo3w with overlapping indices (3 case lists)",
          "thorough": "all case lists over 3 lines, all aggregation orders of the packs"}
NAN = float("nan")


def _same(ctx, name, a, b):
    if isinstance(a, float) and a != a or isinstance(b, float) and b != b:
        ctx.true(name, isinstance(a, float) and isinstance(b, float) and a != a and b != b)
    elif issym(a) or issym(b) or isinstance(a, (float, np.floating)):
        ctx.eq(name, a, b)
    else:
        ctx.true(name, a == b)


def compare(ctx, label, cr_a, cr_b, skip=()):
    for el in cr_a:
        ctx.true(f"{label}/{el}/same_keys", set(cr_a[el]) == set(cr_b[el]))
        for key in cr_a[el]:
            if key in skip or key not in cr_b[el]:
                continue
            for i in range(len(cr_a[el][key])):
                _same(ctx, f"{label}/{el}/{key}[{i}]", cr_a[el][key][i], cr_b[el][key][i])


def make_fn(n, order, own_val, mode, agg_order=None, with_bus=True):
    def fn(ctx):
        seq = c14.build(ctx, n, order, own_val, with_bus=with_bus)
        if mode == "packs":
            par = c14.build(ctx, n, order, own_val, module="pandapower.contingency.contingency_parallel",
                            fname="_update_contingency_results_parallel", parallel=True, agg_order=agg_order, with_bus=with_bus)
        else:    # n_procs == 1 path of run_contingency_parallel
            par = c14.build(ctx, n, order, own_val, module="pandapower.contingency.contingency_parallel",
                            fname="_update_contingency_results_parallel", parallel=False, with_bus=with_bus)
        if agg_order is None or tuple(agg_order) == tuple(range(len(order))):
            compare(ctx, "parallel_equals_sequential", seq[0], par[0])
        else:
            # another completion order: extremes and overloading flags must not depend on it; cause_index only has to stay valid
            compare(ctx, "order_independent", seq[0], par[0], skip=("cause_index", "cause_element"))
            cr, L, lim, VM, n0, vm0 = par
            c14.obligations(ctx, n, order, cr, L, lim, VM, n0, vm0)
    return fn


def make_real(cases, entry):
    """the real run_contingency_parallel (pool replaced by its contract) against the real run_contingency on a net with lines, a transformer
    and a three-winding transformer with overlapping indices"""
    def fn(ctx):
        net_s, cr_s, L, lim, VM = c14.run_real(ctx, cases, "sequential")
        net_p, cr_p, L2, lim2, VM2 = c14.run_real(ctx, cases, entry)
        compare(ctx, "parallel_equals_sequential", cr_s, cr_p)
        c14.obligations_real(ctx, cases, net_p, cr_p, L2, lim2, VM2, label="parallel/")
    return fn


def instances(tier):
    out = []
    n = 3
    if tier == "quick":
        specs = [((0, 1), "packs", None), ((1, 0), "packs", None), ((0, 1), "single_proc", None), ((0, 1), "packs", (1, 0)),
                 ((0, 1, 2), "packs", None)]
    else:
        specs = []
        for k in (1, 2, 3):
            for sub in itertools.combinations(range(n), k):
                for p in itertools.permutations(sub):
                    specs.append((p, "packs", None))
                specs.append((sub, "single_proc", None))
                for agg in itertools.permutations(range(k)):
                    if agg != tuple(range(k)):
                        specs.append((sub, "packs", agg))
    for order, mode, agg in specs:
        for own, tag in ((0.0, "own0"), (NAN, "ownNaN")):
            wb = len(order) < 3
            nm = f"lines{n}_order{''.join(map(str, order))}_{mode}" + (f"_agg{''.join(map(str, agg))}" if agg else "") + f"_{tag}"
            out.append(Inst(nm, make_fn(n, order, own, mode, agg, wb), nvars=26, samples=2, max_paths=40000,
                            meta=dict(lines=n, case_order=order, path=mode, aggregation_order=agg, own_outage_entry=tag, with_bus=wb)))
    real = [([("line", 0), ("trafo", 0), ("trafo3w", 0)], "parallel"), ([("trafo3w", 0), ("line", 0)], "parallel"), ([("trafo", 0), ("line", 0)], "single_proc")]
    if tier == "thorough":
        real += [([("trafo", 0), ("line", 1), ("trafo3w", 0)], "parallel"), ([("line", 0), ("trafo", 0), ("trafo3w", 0)], "single_proc")]
    for cases, entry in real:
        nm = f"run_contingency_parallel_{entry}_" + "_".join(f"{e}{i}" for e, i in cases)
        out.append(Inst(nm, make_real(cases, entry), nvars=60, samples=2, max_paths=60000, raises=(UserWarning,),
                        meta=dict(entry="run_contingency_parallel", n_procs=2 if entry == "parallel" else 1, cases=[list(c) for c in cases])))
    return out


INSTANCE_TIMEOUT_S = {"quick": 900, "thorough": 3000}
LEVEL_TEXT = ("Translation validation of the parallel aggregation against the sequential one: both real kernels are run on the same symbolic "
              "per-case result packs and z3 shows every key and every value of the two result dictionaries equal, for the pack path, the "
              "n_procs==1 path and (extremes/flags) for other aggregation orders.")
LEVEL_NOTE = ("Trusted: Pool.map returns the workers' packs in task order; _run_single_contingency's pack format (res_vals[element][var]); "
              "z3. Bounds: 3 lines, 1 bus, <= 3 cases.")
