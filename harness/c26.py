"""C26 Topology graphs: distances from calc_distance_to_bus are shortest-path lengths (the distance clause)."""
import copy
import itertools

import numpy as np

from .common import pp, Inst, setcol
from symx.core import all_of, any_of

PROPERTY = "C26"
LEVEL = "model_checking"
FUNCTIONS = [("pandapower.topology.create_graph", "create_nxgraph"), ("pandapower.topology.graph_searches", "calc_distance_to_bus")]
STUBS = ["networkx' Dijkstra (pure Python) runs on the symbolic edge weights: every distance comparison forks the path"]
ASSUMPTIONS = ["line lengths symbolic in [0.01, 100] km; all elements in service, no open switches (edge existence is structural and outside the claim)"]
OUTSIDE = ["which edges exist under in-service flags / switches / include_* / nogobuses / notravbuses (masks on concrete arrays: structural)",
           "connected_components partition", "igraph back-end"]
BOUNDS = {"quick": "3 topologies with <= 4 buses / <= 5 lines (incl. a parallel pair)", "thorough": "+ trafo edge with trafo_length_km, 5-line double mesh from every source bus"}
TOPOS = {"triangle_tail": [(0, 1), (1, 2), (2, 0), (2, 3)], "parallel_pair": [(0, 1), (0, 1), (1, 2)],
         "double_mesh": [(0, 1), (1, 2), (2, 3), (3, 0), (0, 2)]}
_cache = {}


def _net(name):
    if name not in _cache:
        net = pp.create_empty_network()
        nb = 1 + max(max(e) for e in TOPOS[name])
        b = [pp.create_bus(net, 20.) for _ in range(nb)]
        pp.create_ext_grid(net, b[0])
        for f, t in TOPOS[name]:
            pp.create_line_from_parameters(net, b[f], b[t], 1., 0.1, 0.1, 10, 1.)
        _cache[name] = net
    return _cache[name]


def _simple_paths(edges, src, dst):
    out = []

    def walk(node, used, length_ix):
        if node == dst:
            out.append(list(length_ix))
            return
        for k, (f, t) in enumerate(edges):
            if k in used:
                continue
            nxt = t if f == node else (f if t == node else None)
            if nxt is None or nxt in [src] + [v for v, _ in walk.visited]:
                continue
            walk.visited.append((nxt, k))
            walk(nxt, used | {k}, length_ix + [k])
            walk.visited.pop()
    walk.visited = []
    walk(src, frozenset(), [])
    return out


def make_fn(name, src):
    def fn(ctx):
        cg = ctx.load("pandapower.topology.create_graph")
        gs = ctx.load("pandapower.topology.graph_searches")
        net = copy.deepcopy(_net(name))
        edges = TOPOS[name]
        L = [ctx.var(f"len{k}", 0.01, 100.) for k in range(len(edges))]
        setcol(ctx, net.line, "length_km", L)
        g = cg.create_nxgraph(net)
        for k, (f, t) in enumerate(edges):
            w = [d["weight"] for d in g.get_edge_data(f, t).values() if d.get("key", None) is None]
            ctx.true(f"edge_weight_is_line_length/{k}", any_of([ww == L[k] for ww in g_weights(g, f, t)]))
        dist = gs.calc_distance_to_bus(net, src, g=g)
        nb = len(net.bus)
        ctx.eq("distance_to_itself_is_zero", dist[src], 0.0)
        for dst in range(nb):
            if dst == src:
                continue
            paths = _simple_paths(edges, src, dst)
            sums = []
            for pth in paths:
                s = 0.0
                for k in pth:
                    s = s + L[k]
                sums.append(s)
            ctx.true(f"distance_is_a_lower_bound_of_every_path/{dst}", all_of([dist[dst] <= s for s in sums]))
            ctx.true(f"distance_is_attained_by_some_path/{dst}", any_of([dist[dst] == s for s in sums]))
    return fn


def g_weights(g, f, t):
    data = g.get_edge_data(f, t)
    return [d["weight"] for d in data.values()]


def instances(tier):
    out = [Inst(f"{n}_from0", make_fn(n, 0), nvars=12, samples=3, max_paths=5000, meta=dict(topology=n, source=0)) for n in TOPOS]
    if tier == "thorough":
        out += [Inst(f"double_mesh_from{s}", make_fn("double_mesh", s), nvars=12, samples=3, max_paths=5000, meta=dict(topology="double_mesh", source=s)) for s in (1, 2, 3)]
    return out


LEVEL_TEXT = ("Bounded model checking of the distance clause: the real create_nxgraph and calc_distance_to_bus (networkx Dijkstra in pure "
              "Python) run with symbolic line lengths; on every feasible ordering of path lengths z3 shows the returned distance is a lower "
              "bound of every simple path and equal to one of them, and that each edge weight is its line's length.")
LEVEL_NOTE = ("Trusted: networkx' graph data structure on concrete node ids; z3. Bounds: <= 4 buses, <= 5 lines, everything in service.")
