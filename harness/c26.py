"""C26 Topology graphs: edge set under in-service flags / switches / options, components partition, distances are shortest paths."""
import copy
import itertools

import numpy as np

from .common import pp, Inst, setcol
from symx.core import all_of, any_of

PROPERTY = "C26"
LEVEL = "model_checking"
FUNCTIONS = [("pandapower.topology.create_graph", "create_nxgraph"), ("pandapower.topology.graph_searches", "calc_distance_to_bus")]
STUBS = ["networkx' Dijkstra (pure Python) runs on the symbolic edge weights: every distance comparison forks the path"]
ASSUMPTIONS = ["line lengths symbolic in [0.01, 100] km; all elements in service, no open switches (edge existence is structural and outside the claim)"]
OUTSIDE = ["which edges exist under in-service flags / switches / include_* / nogobuses / notravbuses (masks on concrete arrays: structural)",
           "connected_components partition", "igraph back-end"]
BOUNDS = {"quick": "3 topologies with <= 4 buses / <= 5 lines (incl. a parallel pair)", "thorough": "+ trafo edge with trafo_length_km, 5-line double mesh from every source bus"}
TOPOS = {"triangle_tail": [(0, 1), (1, 2), (2, 0), (2, 3)], "parallel_pair": [(0, 1), (0, 1), (1, 2)],
         "double_mesh": [(0, 1), (1, 2), (2, 3), (3, 0), (0, 2)]}
_cache = {}


def _net(name):
    if name not in _cache:
        net = pp.create_empty_network()
        nb = 1 + max(max(e) for e in TOPOS[name])
        b = [pp.create_bus(net, 20.) for _ in range(nb)]
        pp.create_ext_grid(net, b[0])
        for f, t in TOPOS[name]:
            pp.create_line_from_parameters(net, b[f], b[t], 1., 0.1, 0.1, 10, 1.)
        _cache[name] = net
    return _cache[name]


def _simple_paths(edges, src, dst):
    out = []

    def walk(node, used, length_ix):
        if node == dst:
            out.append(list(length_ix))
            return
        for k, (f, t) in enumerate(edges):
            if k in used:
                continue
            nxt = t if f == node else (f if t == node else None)
            if nxt is None or nxt in [src] + [v for v, _ in walk.visited]:
                continue
            walk.visited.append((nxt, k))
            walk(nxt, used | {k}, length_ix + [k])
            walk.visited.pop()
    walk.visited = []
    walk(src, frozenset(), [])
    return out


def make_fn(name, src):
    def fn(ctx):
        cg = ctx.load("pandapower.topology.create_graph")
        gs = ctx.load("pandapower.topology.graph_searches")
        net = copy.deepcopy(_net(name))
        edges = TOPOS[name]
        L = [ctx.var(f"len{k}", 0.01, 100.) for k in range(len(edges))]
        setcol(ctx, net.line, "length_km", L)
        g = cg.create_nxgraph(net)
        for k, (f, t) in enumerate(edges):
            w = [d["weight"] for d in g.get_edge_data(f, t).values() if d.get("key", None) is None]
            ctx.true(f"edge_weight_is_line_length/{k}", any_of([ww == L[k] for ww in g_weights(g, f, t)]))
        dist = gs.calc_distance_to_bus(net, src, g=g)
        nb = len(net.bus)
        ctx.eq("distance_to_itself_is_zero", dist[src], 0.0)
        for dst in range(nb):
            if dst == src:
                continue
            paths = _simple_paths(edges, src, dst)
            sums = []
            for pth in paths:
                s = 0.0
                for k in pth:
                    s = s + L[k]
                sums.append(s)
            ctx.true(f"distance_is_a_lower_bound_of_every_path/{dst}", all_of([dist[dst] <= s for s in sums]))
            ctx.true(f"distance_is_attained_by_some_path/{dst}", any_of([dist[dst] == s for s in sums]))
    return fn


# ---------------------------------------------------------------- edge set under in-service flags, switches and options
FLAGS = ["sw_line0_at_b1_closed", "sw_trafo0_closed", "sw_trafo3w0_at_mv_closed", "sw_trafo3w1_at_hv_closed", "sw_bus3_bus6_closed", "sw_line1_at_b3_closed",
         "line0_in_service", "trafo0_in_service", "trafo3w0_in_service", "bus3_in_service", "impedance0_in_service", "sw_trafo3w0_at_hv_closed"]


def _flag_net():
    if "flags" not in _cache:
        net = pp.create_empty_network()
        b = [pp.create_bus(net, v) for v in (110., 20., 20., 20., 10., 10., 20.)]
        pp.create_ext_grid(net, b[0])
        pp.create_transformer_from_parameters(net, b[0], b[1], 40, 110, 20, 0.3, 12, 20, 0.05)
        pp.create_transformer3w_from_parameters(net, b[0], b[2], b[4], 110, 20, 10, 40, 20, 20, 10, 10, 10, 0.3, 0.3, 0.3, 20, 0.05)
        pp.create_transformer3w_from_parameters(net, b[0], b[3], b[5], 110, 20, 10, 40, 20, 20, 10, 10, 10, 0.3, 0.3, 0.3, 20, 0.05)   # shares the hv bus
        pp.create_line_from_parameters(net, b[1], b[2], 1.5, 0.1, 0.1, 10, 1.)
        pp.create_line_from_parameters(net, b[2], b[3], 2.5, 0.1, 0.1, 10, 1.)
        pp.create_line_from_parameters(net, b[4], b[5], 0.7, 0.1, 0.1, 10, 1.)
        pp.create_impedance(net, b[1], b[3], 0.01, 0.02, 10.)
        pp.create_switch(net, b[1], 0, "l")
        pp.create_switch(net, b[1], 0, "t")
        pp.create_switch(net, b[2], 0, "t3")
        pp.create_switch(net, b[3], b[6], "b")
        pp.create_switch(net, b[3], 1, "l")
        pp.create_switch(net, b[0], 0, "t3")
        pp.create_switch(net, b[0], 1, "t3")
        _cache["flags"] = net
    return _cache["flags"]


def _not(a):
    return (not a) if isinstance(a, (bool, np.bool_)) else ~a


def make_flags(nflags, respect_switches=True, options=None):
    """every flag is a symbolic boolean (threshold of a symbolic real); the harness writes the decided value into the tables (one path per
    combination the solver finds feasible), the real create_nxgraph / connected_components / calc_distance_to_bus run on it, and the claim per
    potential edge is 'present <=> reference formula over the symbolic flags', decided by the solver under the path condition"""
    options = dict(options or {})

    def fn(ctx):
        cg = ctx.load("pandapower.topology.create_graph")
        gs = ctx.load("pandapower.topology.graph_searches")
        net = copy.deepcopy(_flag_net())
        F = {}
        for k, nm in enumerate(FLAGS):
            F[nm] = (ctx.var(nm, 0., 1.) >= 0.5) if k < nflags else True
        D = {nm: bool(v) for nm, v in F.items()}          # forks
        net.switch["closed"] = [D["sw_line0_at_b1_closed"], D["sw_trafo0_closed"], D["sw_trafo3w0_at_mv_closed"], D["sw_bus3_bus6_closed"],
                                D["sw_line1_at_b3_closed"], D["sw_trafo3w0_at_hv_closed"], D["sw_trafo3w1_at_hv_closed"]]
        net.line.loc[0, "in_service"] = D["line0_in_service"]
        net.trafo.loc[0, "in_service"] = D["trafo0_in_service"]
        net.trafo3w.loc[0, "in_service"] = D["trafo3w0_in_service"]
        net.bus.loc[3, "in_service"] = D["bus3_in_service"]
        net.impedance.loc[0, "in_service"] = D["impedance0_in_service"]
        rs = respect_switches
        oos = options.get("include_out_of_service", False)
        nogo = set(options.get("nogobuses") or [])
        notrav = set(options.get("notravbuses") or [])
        g = cg.create_nxgraph(net, respect_switches=rs, **options)
        closed = lambda nm: F[nm] if rs else True
        ins = lambda nm: True if oos else F[nm]
        bus_ok = lambda bno: (bno not in nogo) & ((True if oos else F["bus3_in_service"]) if bno == 3 else True)
        inc = lambda key, default=True: options.get(key, default)

        def included(key, idx):
            v = options.get(key, True)
            return bool(v) if isinstance(v, bool) else idx in list(v)
        t3 = ins("trafo3w0_in_service") if included("include_trafo3ws", 0) else False
        ref = {
            (1, 2, ("line", 0)): (ins("line0_in_service") & closed("sw_line0_at_b1_closed")) if included("include_lines", 0) else False,
            (2, 3, ("line", 1)): closed("sw_line1_at_b3_closed") if included("include_lines", 1) else False,
            (4, 5, ("line", 2)): True if included("include_lines", 2) else False,
            (0, 1, ("trafo", 0)): (ins("trafo0_in_service") & closed("sw_trafo0_closed")) if included("include_trafos", 0) else False,
            (0, 2, ("trafo3w", 0)): t3 & closed("sw_trafo3w0_at_mv_closed") & closed("sw_trafo3w0_at_hv_closed"),
            (0, 4, ("trafo3w", 0)): t3 & closed("sw_trafo3w0_at_hv_closed"),
            (2, 4, ("trafo3w", 0)): t3 & closed("sw_trafo3w0_at_mv_closed"),
            (0, 3, ("trafo3w", 1)): closed("sw_trafo3w1_at_hv_closed") if included("include_trafo3ws", 1) else False,
            (0, 5, ("trafo3w", 1)): closed("sw_trafo3w1_at_hv_closed") if included("include_trafo3ws", 1) else False,
            (3, 5, ("trafo3w", 1)): True if included("include_trafo3ws", 1) else False,
            (1, 3, ("impedance", 0)): ins("impedance0_in_service") if included("include_impedances", 0) else False,
            (3, 6, ("switch", 3)): closed("sw_bus3_bus6_closed") if options.get("include_switches", True) else False,
        }
        # notravbuses can be reached but not passed: the graph keeps the adjacency into such a bus and drops the adjacency out of it
        dref = {}
        for (u, v, key), r in list(ref.items()):
            r = r & bus_ok(u) & bus_ok(v)
            ref[(u, v, key)] = r
            dref[(u, v, key)] = False if u in notrav else r
            dref[(v, u, key)] = False if v in notrav else r
        got = set()
        for u in g.adj:
            for v in g.adj[u]:
                for key in g.adj[u][v]:
                    got.add((u, v, key))
        for e, r in dref.items():
            present = e in got
            ctx.true(f"edge_iff_energizing_connection/{e[2][0]}{e[2][1]}_{e[0]}_to_{e[1]}", r if present else _not(r))
        ctx.true("no_edge_besides_the_branches_and_bus_switches", got <= set(dref))
        for bno in range(7):
            ctx.true(f"node_iff_bus_in_service_and_not_nogo/{bno}", bus_ok(bno) if bno in g else _not(bus_ok(bno)))
        # components / distances on this path: reference from the expected edge set, decided for this combination of flags
        exp_edges = [e for e, r in dref.items() if (r if isinstance(r, (bool, np.bool_)) else bool(r))]
        nodes = [bno for bno in range(7) if (lambda r: r if isinstance(r, (bool, np.bool_)) else bool(r))(bus_ok(bno))]
        parent = {n_: n_ for n_ in nodes}

        def find(a):
            while parent[a] != a:
                a = parent[a]
            return a
        for u, v, _ in exp_edges:
            parent[find(u)] = find(v)
        if not notrav:
            comps = [set(c) for c in gs.connected_components(g)]
            seen = [n_ for c in comps for n_ in c]
            ctx.true("components_cover_every_node_exactly_once", sorted(seen) == sorted(nodes))
            same_ok = all((find(a) == find(b_)) == any(a in c and b_ in c for c in comps) for a in nodes for b_ in nodes)
            ctx.true("same_component_iff_connected_by_energizing_connections", same_ok)
        wt = {("line", 0): 1.5, ("line", 1): 2.5, ("line", 2): 0.7}
        INF = float("inf")
        dist = {a: {b_: (0.0 if a == b_ else INF) for b_ in nodes} for a in nodes}
        for u, v, key in exp_edges:
            w = wt.get(key, 0.0)
            dist[u][v] = min(dist[u][v], w)
        for k_ in nodes:
            for a in nodes:
                for b_ in nodes:
                    if dist[a][k_] + dist[k_][b_] < dist[a][b_]:
                        dist[a][b_] = dist[a][k_] + dist[k_][b_]
        if 0 in nodes:
            d = gs.calc_distance_to_bus(net, 0, respect_switches=rs, nogobuses=options.get("nogobuses"), notravbuses=options.get("notravbuses")) \
                if set(options) <= {"nogobuses", "notravbuses"} else gs.calc_distance_to_bus(net, 0, g=g)
            reach = sorted(b_ for b_ in nodes if dist[0][b_] < INF)
            ctx.true("distances_reported_for_exactly_the_connected_buses", sorted(int(i) for i in d.index) == reach)
            ctx.true("distances_are_shortest_path_lengths", all(abs(float(d[b_]) - dist[0][b_]) < 1e-9 for b_ in reach if b_ in d.index))
    return fn


def g_weights(g, f, t):
    data = g.get_edge_data(f, t)
    return [d["weight"] for d in data.values()]


def instances(tier):
    out = [Inst(f"{n}_from0", make_fn(n, 0), nvars=12, samples=3, max_paths=5000, meta=dict(topology=n, source=0)) for n in TOPOS]
    nf = 8 if tier == "quick" else 10
    out += [Inst("edges_respect_switches", make_flags(nf, True), nvars=16, samples=6, max_paths=5000, meta=dict(part="edges", respect_switches=True, flags=nf)),
            Inst("edges_ignore_switches", make_flags(min(nf, 9), False), nvars=14, samples=6, max_paths=5000, meta=dict(part="edges", respect_switches=False, flags=min(nf, 9)))]
    opts = {"nogobus2": dict(nogobuses=[2]), "notravbus2": dict(notravbuses=[2]), "no_trafos": dict(include_trafos=False),
            "only_line1_no_trafo3w": dict(include_lines=[1], include_trafo3ws=False), "out_of_service_included": dict(include_out_of_service=True),
            "no_bus_switches_no_impedances": dict(include_switches=False, include_impedances=False),
            "nogobus3_listed_before_notravbus2": dict(nogobuses=[3], notravbuses=[3, 2]),
            "notravbuses_3_then_2": dict(notravbuses=[3, 2])}
    for nm, o in opts.items():
        if tier == "thorough" or nm in ("nogobus2", "out_of_service_included", "nogobus3_listed_before_notravbus2"):
            k = 6 if tier == "quick" else (10 if nm == "notravbuses_3_then_2" else 9)     # bus3_in_service is the 10th flag
            out.append(Inst(f"edges_option_{nm}", make_flags(k, True, o), nvars=14, samples=4, max_paths=5000, meta=dict(part="edges", options=str(o), flags=k)))
    if tier == "thorough":
        out += [Inst(f"double_mesh_from{s}", make_fn("double_mesh", s), nvars=12, samples=3, max_paths=5000, meta=dict(topology="double_mesh", source=s)) for s in (1, 2, 3)]
    return out


LEVEL_TEXT = ("Bounded model checking of the distance clause: the real create_nxgraph and calc_distance_to_bus (networkx Dijkstra in pure "
              "Python) run with symbolic line lengths; on every feasible ordering of path lengths z3 shows the returned distance is a lower "
              "bound of every simple path and equal to one of them, and that each edge weight is its line's length.")
LEVEL_NOTE = ("Trusted: networkx' graph data structure on concrete node ids; z3. The edge-set instances additionally run create_nxgraph on a net with every element kind, symbolic in_service / closed flags and every respect_switches / include_* / notravbuses option, against the stated edge rule. Bounds: <= 4 buses, <= 5 lines for distances; one element of each kind (two trafo3w) for edges.")
