"""C32 Characteristics interpolate through their support points."""
import numpy as np

from .common import pp, Inst, patched
from symx import core
from symx.core import all_of, any_of

PROPERTY = "C32"
LEVEL = "model_checking"
FUNCTIONS = [("pandapower.control.util.characteristic", "Characteristic.__call__"), ("pandapower.control.util.characteristic", "Characteristic.diff"),
             ("pandapower.control.util.characteristic", "Characteristic.satisfies"), ("pandapower.control.util.characteristic", "Characteristic.from_points"),
             ("pandapower.control.util.characteristic", "Characteristic.from_gradient"),
             ("pandapower.control.util.characteristic", "SplineCharacteristic.__call__"),
             ("pandapower.control.util.characteristic", "LogSplineCharacteristic.__call__")]
STUBS = ["numpy.interp -> reference implementation of its documented semantics (piecewise linear, end clamping), validated against numpy on every run",
         "scipy interpolators (interp1d, PchipInterpolator) -> contract stubs: I(x_i) = y_i, fresh value elsewhere; the Pchip stub additionally keeps the value between neighbouring support values (scipy's documented shape preservation), the interp1d stub does not",
         "log10 / 10**x -> uninterpreted inverse pair"]
ASSUMPTIONS = ["3-4 strictly increasing symbolic x_i, arbitrary symbolic y_i; gradient > 0"]
OUTSIDE = ["the interpolation numerics of scipy (compiled)", "serialisation (C20's reason)", "monotonicity of Pchip between support points (scipy's contract)"]
BOUNDS = {"quick": "Characteristic with 3 and 4 points; from_points; from_gradient; diff/satisfies; Spline and LogSpline wiring with 3 points via __init__ and from_points, interpolator kind and options pass-through, monotone data with Pchip", "thorough": "same"}


def _points(ctx, n, positive=False):
    xs = [ctx.var(f"x{i}", 0.1 if positive else -10., 10.) for i in range(n)]
    ys = [ctx.var(f"y{i}", 0.1 if positive else -10., 10.) for i in range(n)]
    for i in range(n - 1):
        ctx.assume(xs[i] + 0.01 <= xs[i + 1])
    return xs, ys


def make_linear(n, how):
    def fn(ctx):
        ch = ctx.load("pandapower.control.util.characteristic")
        xs, ys = _points(ctx, n)
        net = pp.create_empty_network()
        if how == "init":
            c = ch.Characteristic(net, xs, ys)
        else:
            c = ch.Characteristic.from_points(net, list(zip(xs, ys)))
        for i in range(n):
            ctx.eq(f"passes_through_support_point/{i}", c(xs[i]), ys[i])
        x = ctx.var("x", -12., 12.)
        v = c(x)
        if bool(x <= xs[0]):
            ctx.eq("clamped_left", v, ys[0])
        elif bool(x >= xs[-1]):
            ctx.eq("clamped_right", v, ys[-1])
        else:
            for k in range(n - 1):
                if bool(x <= xs[k + 1]):
                    lo_ok = (v >= ys[k]) | (v >= ys[k + 1])
                    hi_ok = (v <= ys[k]) | (v <= ys[k + 1])
                    ctx.true(f"between_neighbouring_support_values/segment{k}", lo_ok & hi_ok)
                    ctx.eq(f"linear_on_segment/segment{k}", (v - ys[k]) * (xs[k + 1] - xs[k]), (ys[k + 1] - ys[k]) * (x - xs[k]))
                    break
        m = ctx.var("measured", -12., 12.)
        eps = ctx.var("epsilon", 0.001, 1.)
        ctx.eq("diff_is_measured_minus_expected", c.diff(x, m), m - v)
        sat = c.satisfies(x, m, eps)
        d = m - v
        ctx.true("satisfies_iff_within_epsilon", ((d < eps) & (d > -eps)) == bool(sat) if ctx.symbolic else (abs(d) < eps) == bool(sat))
    return fn


def make_gradient():
    def fn(ctx):
        ch = ctx.load("pandapower.control.util.characteristic")
        zc, g = ctx.var("zero_crossing", -5., 5.), ctx.var("gradient", 0.1, 10.)
        ymin, ymax = ctx.var("y_min", -10., 0.), ctx.var("y_max", 0.1, 10.)
        ctx.assume(ymin <= zc)
        ctx.assume(zc <= ymax)
        net = pp.create_empty_network()
        with patched(ch, float=lambda v: v):
            c = ch.Characteristic.from_gradient(net, zc, g, ymin, ymax)
        x = ctx.var("x", -20., 20.)
        v = c(x)
        line = zc + g * x
        if bool(line <= ymin):
            ctx.eq("clamped_at_y_min", v, ymin)
        elif bool(line >= ymax):
            ctx.eq("clamped_at_y_max", v, ymax)
        else:
            ctx.eq("follows_the_line_through_the_zero_crossing", v, line)
    return fn


def make_spline(kind, how="init", monotone=False, extra_kw=None, sibling=False):
    """Spline classes with scipy's interpolators replaced (symbolic mode) by their documented contract:
    both reproduce the support points; PchipInterpolator additionally preserves monotonicity of the data
    (scipy docs: 'preserves monotonicity in the interpolation data and does not overshoot'), interp1d(quadratic) does not."""
    def fn(ctx):
        ch = ctx.load("pandapower.control.util.characteristic")
        n = 3
        xs, ys = _points(ctx, n, positive=True)
        if sibling:
            # concrete support points (the query point stays symbolic): code that keys a table on the points must see hashable numbers, as it
            # does in a real run - symbolic scalars are deliberately unhashable
            xs, ys = [1.0, 2.0, 4.0], [0.5, 1.0, 1.5]
        if monotone:
            for i in range(n - 1):
                if not sibling:
                    ctx.assume(ys[i] <= ys[i + 1])
        net = pp.create_empty_network()
        stubs = {}
        built = []
        if ctx.symbolic:
            fresh = lambda: core.Ctx.cur.fresh("interp", lambda: 0.0)

            class Interp:
                shape_preserving = False
                kind = "interp1d"

                def __init__(self, x, y, **kw):
                    self.x, self.y, self.kw = list(x), list(y), dict(kw)
                    built.append(self)

                def __call__(self, q):
                    q = core.SReal.of(q)
                    for a, b in zip(self.x, self.y):
                        if core.SReal.of(a).v == q.v:
                            return b
                    v = fresh()
                    if self.shape_preserving:
                        for k in range(len(self.x) - 1):
                            inside = (q >= self.x[k]) & (q <= self.x[k + 1])
                            lo_ok = (v >= self.y[k]) | (v >= self.y[k + 1])
                            hi_ok = (v <= self.y[k]) | (v <= self.y[k + 1])
                            core.Ctx.cur.assume(core.implies(inside, lo_ok & hi_ok))
                    return v

            class Pchip(Interp):
                shape_preserving = True
                kind = "Pchip"
            stubs = dict(default_interp1d=Interp, PchipInterpolator=Pchip)
            inv = {}

            def log10(v):
                v = core.SReal.of(v)
                y = core.ufun("log10", v, lambda t: float(np.log10(t)))
                inv[str(y.v)] = v
                return y

            def rpow(base, e):
                if float(base) == 10.0 and str(e.v) in inv:
                    return inv[str(e.v)]
                return core.ufun("pow10", e, lambda t: 10.0 ** t)
            ctx.memo["__log10_hook__"] = log10
            ctx.memo["__rpow_hook__"] = rpow
        kw = dict(extra_kw or {})
        with patched(ch, **stubs):
            if sibling:
                # another characteristic over the same points with the other interpolator, created and evaluated first in the same process:
                # what one characteristic builds must not decide what the other one answers with
                sib = ch.SplineCharacteristic(net, ctx.array(xs), ctx.array(ys), interpolator_kind="interp1d" if kind == "pchip" else "Pchip", **kw)
                sib(xs[0])
            if how == "from_points":
                cls = ch.LogSplineCharacteristic if kind == "log" else ch.SplineCharacteristic
                if kind == "pchip":
                    kw["interpolator_kind"] = "Pchip"
                c = cls.from_points(net, list(zip(xs, ys)), **kw)
            elif kind == "log":
                c = ch.LogSplineCharacteristic(net, ctx.array(xs), ctx.array(ys), **kw)
            elif kind == "pchip":
                c = ch.SplineCharacteristic(net, ctx.array(xs), ctx.array(ys), interpolator_kind="Pchip", **kw)
            else:
                c = ch.SplineCharacteristic(net, ctx.array(xs), ctx.array(ys), **kw)
            for i in range(n):
                got = c(xs[i])
                got = got[()] if isinstance(got, np.ndarray) and got.ndim == 0 else got
                if ctx.symbolic:
                    ctx.eq(f"passes_through_support_point/{i}", got, ys[i])
                else:
                    ctx.close(f"passes_through_support_point/{i}", float(got), ys[i], 1e-6)
            # the interpolator that answers is the requested one, built with the caller's options
            it = c.interpolator
            want_kind = "Pchip" if kw.get("interpolator_kind") == "Pchip" or kind == "pchip" else "interp1d"
            if ctx.symbolic:
                got_kind, got_kw = it.kind, it.kw
            else:
                got_kind = "Pchip" if type(it).__name__ == "PchipInterpolator" else "interp1d"
                got_kw = {k: v for k, v in c.kwargs.items()}
            ctx.true("requested_interpolator_kind_is_used", got_kind == want_kind)
            # what is serialised (x, y, kind, options) is the same before and after the characteristic has been evaluated
            stored = {k: v for k, v in (extra_kw or {}).items() if k != "interpolator_kind"}
            ctx.true("evaluation_keeps_the_stored_options", dict(c.kwargs) == stored)
            ctx.true("evaluation_keeps_the_stored_interpolator_kind", c.interpolator_kind == want_kind)
            for k, v in (extra_kw or {}).items():
                if k == "interpolator_kind":
                    continue
                ctx.true(f"interpolator_option_is_passed_on/{k}", k in got_kw and got_kw[k] == v)
            if monotone and kind == "pchip":
                x = ctx.var("x", 0.1, 10.)
                ctx.assume(x >= xs[0])
                ctx.assume(x <= xs[-1])
                v = c(x)
                v = v[()] if isinstance(v, np.ndarray) and v.ndim == 0 else v
                if ctx.symbolic:
                    for k in range(n - 1):
                        inside = (x >= xs[k]) & (x <= xs[k + 1])
                        ctx.true(f"monotone_data_stays_between_neighbouring_support_values/segment{k}",
                                 core.implies(inside, (v >= ys[k]) & (v <= ys[k + 1])))
                else:
                    for k in range(n - 1):
                        if xs[k] <= x <= xs[k + 1]:
                            ctx.true(f"monotone_data_stays_between_neighbouring_support_values/segment{k}",
                                     ys[k] - 1e-9 <= float(v) <= ys[k + 1] + 1e-9)
    return fn


def instances(tier):
    return [Inst("linear_3_points", make_linear(3, "init"), nvars=14, samples=3, meta=dict(cls="Characteristic", points=3)),
            Inst("linear_4_points_from_points", make_linear(4, "from_points"), nvars=16, samples=3, meta=dict(cls="Characteristic.from_points", points=4)),
            Inst("from_gradient", make_gradient(), nvars=12, samples=3, meta=dict(cls="Characteristic.from_gradient")),
            Inst("spline_interp1d", make_spline("interp1d"), nvars=16, samples=2, meta=dict(cls="SplineCharacteristic", interpolator="interp1d")),
            Inst("spline_pchip", make_spline("pchip"), nvars=16, samples=2, meta=dict(cls="SplineCharacteristic", interpolator="Pchip")),
            Inst("log_spline", make_spline("log"), nvars=24, samples=2, meta=dict(cls="LogSplineCharacteristic")),
            Inst("spline_pchip_monotone", make_spline("pchip", monotone=True), nvars=24, samples=3,
                 meta=dict(cls="SplineCharacteristic", interpolator="Pchip", data="monotone")),
            Inst("spline_from_points_pchip_monotone", make_spline("pchip", how="from_points", monotone=True), nvars=24, samples=3,
                 meta=dict(cls="SplineCharacteristic.from_points", interpolator="Pchip", data="monotone")),
            Inst("spline_pchip_after_interp1d_sibling", make_spline("pchip", monotone=True, sibling=True), nvars=24, samples=3,
                 meta=dict(cls="SplineCharacteristic", interpolator="Pchip", sibling="interp1d over the same points, evaluated first")),
            Inst("spline_interp1d_after_pchip_sibling", make_spline("interp1d", sibling=True), nvars=16, samples=2,
                 meta=dict(cls="SplineCharacteristic", interpolator="interp1d", sibling="Pchip over the same points, evaluated first")),
            Inst("spline_options_fill_value", make_spline("interp1d", extra_kw=dict(kind="linear", fill_value=(0.5, 2.0))), nvars=16, samples=2,
                 meta=dict(cls="SplineCharacteristic", interpolator="interp1d", options="kind=linear, fill_value=(0.5, 2.0)")),
            Inst("spline_from_points_options", make_spline("interp1d", how="from_points", extra_kw=dict(kind="linear")), nvars=16, samples=2,
                 meta=dict(cls="SplineCharacteristic.from_points", interpolator="interp1d", options="kind=linear")),
            Inst("log_spline_from_points_pchip", make_spline("log", how="from_points", extra_kw=dict(interpolator_kind="Pchip")), nvars=24, samples=2,
                 meta=dict(cls="LogSplineCharacteristic.from_points", interpolator="Pchip"))]


LEVEL_TEXT = ("Bounded model checking of the characteristic classes: for symbolic strictly increasing support points z3 shows that the piecewise "
              "linear Characteristic returns y_i at x_i, stays between neighbouring support values, clamps at the ends, and that diff / satisfies / "
              "from_points / from_gradient follow their docstrings; for the spline classes that the repository wires x/y (and log10 / 10**) "
              "so that a contract-satisfying interpolator reproduces the support points.")
LEVEL_NOTE = ("Trusted: numpy.interp's documented semantics (shim validated against numpy each run), scipy's interpolation contract I(x_i)=y_i, z3. Bounds: <= 4 points.")
