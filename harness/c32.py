"""C32 Characteristics interpolate through their support points."""
import numpy as np

from .common import pp, Inst, patched
from symx import core
from symx.core import all_of, any_of

PROPERTY = "C32"
LEVEL = "model_checking"
FUNCTIONS = [("pandapower.control.util.characteristic", "Characteristic.__call__"), ("pandapower.control.util.characteristic", "Characteristic.diff"),
             ("pandapower.control.util.characteristic", "Characteristic.satisfies"), ("pandapower.control.util.characteristic", "Characteristic.from_points"),
             ("pandapower.control.util.characteristic", "Characteristic.from_gradient"),
             ("pandapower.control.util.characteristic", "SplineCharacteristic.__call__"),
             ("pandapower.control.util.characteristic", "LogSplineCharacteristic.__call__")]
STUBS = ["numpy.interp -> reference implementation of its documented semantics (piecewise linear, end clamping), validated against numpy on every run",
         "scipy interpolators (interp1d, PchipInterpolator) -> contract stub I(x_i) = y_i (fresh value elsewhere)",
         "log10 / 10**x -> uninterpreted inverse pair"]
ASSUMPTIONS = ["3-4 strictly increasing symbolic x_i, arbitrary symbolic y_i; gradient > 0"]
OUTSIDE = ["the interpolation numerics of scipy (compiled)", "serialisation (C20's reason)", "monotonicity of Pchip between support points (scipy's contract)"]
BOUNDS = {"quick": "Characteristic with 3 and 4 points; from_points; from_gradient; diff/satisfies; Spline and LogSpline wiring with 3 points", "thorough": "same"}


def _points(ctx, n, positive=False):
    xs = [ctx.var(f"x{i}", 0.1 if positive else -10., 10.) for i in range(n)]
    ys = [ctx.var(f"y{i}", 0.1 if positive else -10., 10.) for i in range(n)]
    for i in range(n - 1):
        ctx.assume(xs[i] + 0.01 <= xs[i + 1])
    return xs, ys


def make_linear(n, how):
    def fn(ctx):
        ch = ctx.load("pandapower.control.util.characteristic")
        xs, ys = _points(ctx, n)
        net = pp.create_empty_network()
        if how == "init":
            c = ch.Characteristic(net, xs, ys)
        else:
            c = ch.Characteristic.from_points(net, list(zip(xs, ys)))
        for i in range(n):
            ctx.eq(f"passes_through_support_point/{i}", c(xs[i]), ys[i])
        x = ctx.var("x", -12., 12.)
        v = c(x)
        if bool(x <= xs[0]):
            ctx.eq("clamped_left", v, ys[0])
        elif bool(x >= xs[-1]):
            ctx.eq("clamped_right", v, ys[-1])
        else:
            for k in range(n - 1):
                if bool(x <= xs[k + 1]):
                    lo_ok = (v >= ys[k]) | (v >= ys[k + 1])
                    hi_ok = (v <= ys[k]) | (v <= ys[k + 1])
                    ctx.true(f"between_neighbouring_support_values/segment{k}", lo_ok & hi_ok)
                    ctx.eq(f"linear_on_segment/segment{k}", (v - ys[k]) * (xs[k + 1] - xs[k]), (ys[k + 1] - ys[k]) * (x - xs[k]))
                    break
        m = ctx.var("measured", -12., 12.)
        eps = ctx.var("epsilon", 0.001, 1.)
        ctx.eq("diff_is_measured_minus_expected", c.diff(x, m), m - v)
        sat = c.satisfies(x, m, eps)
        d = m - v
        ctx.true("satisfies_iff_within_epsilon", ((d < eps) & (d > -eps)) == bool(sat) if ctx.symbolic else (abs(d) < eps) == bool(sat))
    return fn


def make_gradient():
    def fn(ctx):
        ch = ctx.load("pandapower.control.util.characteristic")
        zc, g = ctx.var("zero_crossing", -5., 5.), ctx.var("gradient", 0.1, 10.)
        ymin, ymax = ctx.var("y_min", -10., 0.), ctx.var("y_max", 0.1, 10.)
        ctx.assume(ymin <= zc)
        ctx.assume(zc <= ymax)
        net = pp.create_empty_network()
        with patched(ch, float=lambda v: v):
            c = ch.Characteristic.from_gradient(net, zc, g, ymin, ymax)
        x = ctx.var("x", -20., 20.)
        v = c(x)
        line = zc + g * x
        if bool(line <= ymin):
            ctx.eq("clamped_at_y_min", v, ymin)
        elif bool(line >= ymax):
            ctx.eq("clamped_at_y_max", v, ymax)
        else:
            ctx.eq("follows_the_line_through_the_zero_crossing", v, line)
    return fn


def make_spline(kind):
    def fn(ctx):
        ch = ctx.load("pandapower.control.util.characteristic")
        n = 3
        xs, ys = _points(ctx, n, positive=True)
        net = pp.create_empty_network()
        stubs = {}
        if ctx.symbolic:
            class Interp:
                def __init__(self, x, y, **kw):
                    self.x, self.y = list(x), list(y)

                def __call__(self, q):
                    q = core.SReal.of(q)
                    for a, b in zip(self.x, self.y):
                        if core.SReal.of(a).v == q.v:
                            return b
                    return Ctx_fresh()
            Ctx_fresh = lambda: core.Ctx.cur.fresh("interp", lambda: 0.0)
            stubs = dict(default_interp1d=Interp, PchipInterpolator=Interp)
            inv = {}

            def log10(v):
                v = core.SReal.of(v)
                y = core.ufun("log10", v, lambda t: float(np.log10(t)))
                inv[str(y.v)] = v
                return y

            def rpow(base, e):
                if float(base) == 10.0 and str(e.v) in inv:
                    return inv[str(e.v)]
                return core.ufun("pow10", e, lambda t: 10.0 ** t)
            ctx.memo["__log10_hook__"] = log10
            ctx.memo["__rpow_hook__"] = rpow
        with patched(ch, **stubs):
            if kind == "log":
                c = ch.LogSplineCharacteristic(net, ctx.array(xs), ctx.array(ys))
            elif kind == "pchip":
                c = ch.SplineCharacteristic(net, ctx.array(xs), ctx.array(ys), interpolator_kind="Pchip")
            else:
                c = ch.SplineCharacteristic(net, ctx.array(xs), ctx.array(ys))
            for i in range(n):
                got = c(xs[i])
                got = got[()] if isinstance(got, np.ndarray) and got.ndim == 0 else got
                if ctx.symbolic:
                    ctx.eq(f"passes_through_support_point/{i}", got, ys[i])
                else:
                    ctx.close(f"passes_through_support_point/{i}", float(got), ys[i], 1e-6)
    return fn


def instances(tier):
    return [Inst("linear_3_points", make_linear(3, "init"), nvars=14, samples=3, meta=dict(cls="Characteristic", points=3)),
            Inst("linear_4_points_from_points", make_linear(4, "from_points"), nvars=16, samples=3, meta=dict(cls="Characteristic.from_points", points=4)),
            Inst("from_gradient", make_gradient(), nvars=12, samples=3, meta=dict(cls="Characteristic.from_gradient")),
            Inst("spline_interp1d", make_spline("interp1d"), nvars=16, samples=2, meta=dict(cls="SplineCharacteristic", interpolator="interp1d")),
            Inst("spline_pchip", make_spline("pchip"), nvars=16, samples=2, meta=dict(cls="SplineCharacteristic", interpolator="Pchip")),
            Inst("log_spline", make_spline("log"), nvars=24, samples=2, meta=dict(cls="LogSplineCharacteristic"))]


LEVEL_TEXT = ("Bounded model checking of the characteristic classes: for symbolic strictly increasing support points z3 shows that the piecewise "
              "linear Characteristic returns y_i at x_i, stays between neighbouring support values, clamps at the ends, and that diff / satisfies / "
              "from_points / from_gradient follow their docstrings; for the spline classes that the repository wires x/y (and log10 / 10**) "
              "so that a contract-satisfying interpolator reproduces the support points.")
LEVEL_NOTE = ("Trusted: numpy.interp's documented semantics (shim validated against numpy each run), scipy's interpolation contract I(x_i)=y_i, z3. Bounds: <= 4 points.")
