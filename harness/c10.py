"""C10 Distributed slack shares the balancing power in proportion to weights."""
import numpy as np

from .common import Inst, patched
from . import c01

PROPERTY = "C10"
LEVEL = "model_checking"
FUNCTIONS = [("pandapower.build_gen", "_normalise_slack_weights"), ("pandapower.pypower.newtonpf", "_evaluate_Fx"),
             ("pandapower.pf.run_newton_raphson_pf", "ppci_to_pfsoln"), ("pandapower.pypower.pfsoln", "_update_p"),
             ("pandapower.pypower.pfsoln", "_split_p_for_gens_at_same_bus")]
STUBS = ["_subnetworks (scipy.csgraph connected components on concrete indices) -> the single island", "the network term V conj(Ybus V) is an opaque complex symbol per bus (the claim does not depend on the network)",
         "Newton's convergence: the code's own mismatch function _evaluate_Fx(dist_slack=True) is evaluated and assumed to be zero"]
ASSUMPTIONS = ["slack weights symbolic in [0.05, 5] (unnormalised), setpoints and demands symbolic, one island"]
OUTSIDE = ["several islands (the code raises)", "xward participants in the solver step (their result extraction is covered)", "the Jacobian's slack column (affects convergence only)"]
BOUNDS = {"quick": "4 buses: ext_grid (w0) | two gens sharing a bus (w1, w2) | non-participating gen (weight 0) | load bus", "thorough": "same + equal weights corner"}


def make_fn(variant):
    def fn(ctx):
        bg = ctx.load("pandapower.build_gen")
        nf = ctx.load("pandapower.pypower.newtonpf")
        nr = ctx.load("pandapower.pf.run_newton_raphson_pf")
        ps = ctx.load("pandapower.pypower.pfsoln")
        from symx.core import SComplex
        from pandapower.pypower.idx_bus import PD, BUS_I, BUS_TYPE, SL_FAC as SL_FAC_BUS, REF, PV, PQ, VM, bus_cols
        from pandapower.pypower.idx_gen import GEN_BUS, GEN_STATUS, PG, SL_FAC, QMIN, QMAX
        from pandapower.pypower.idx_brch import F_BUS, T_BUS, BR_STATUS, BR_X, branch_cols
        nb = 4
        gbus = [0, 0, 1, 2] if variant == "ref_weight_zero" else [0, 1, 1, 2]
        ng = len(gbus)
        bus, gen = c01._bus_gen_arrays(ctx, nb, ng)
        branch = np.zeros((3, branch_cols))
        for k, (f, t) in enumerate([(0, 1), (1, 2), (2, 3)]):
            branch[k, F_BUS], branch[k, T_BUS], branch[k, BR_STATUS], branch[k, BR_X] = f, t, 1, 0.1
        base = 100.0
        w = [ctx.var(f"w{k}", 0.05, 5.) for k in range(3)] + [0.0]
        if variant == "equal":
            w[1] = w[0]
            w[2] = w[0]
        if variant == "ref_weight_zero":
            w[0] = 0.0          # the ext_grid does not participate; a participating gen shares its bus
        pset = [0.0] + [ctx.var(f"pset{k}", -50., 50.) for k in (1, 2, 3)]
        for k in range(ng):
            gen[k, GEN_BUS], gen[k, GEN_STATUS], gen[k, SL_FAC], gen[k, PG] = float(gbus[k]), 1.0, w[k], pset[k]
            gen[k, QMIN], gen[k, QMAX] = -1e9, 1e9
        for b in range(nb):
            bus[b, BUS_I] = float(b)
            bus[b, PD] = ctx.var(f"pd{b}", -50., 50.)
            bus[b, VM] = 1.0
            bus[b, BUS_TYPE] = [REF, PV, PV, PQ][b]
        pd_eff = [bus[b, PD] for b in range(nb)]
        if variant == "zip":       # voltage dependent loads at the participants' buses, solved voltage magnitudes different from 1
            from pandapower.pypower.idx_bus import CID_P, CZD_P
            for b in range(3):
                vm_b, ci, cz = ctx.var(f"vm{b}", 0.9, 1.1), ctx.var(f"ci{b}", 0., 20.), ctx.var(f"cz{b}", 0., 20.)
                bus[b, VM], bus[b, CID_P], bus[b, CZD_P] = vm_b, ci, cz
                pd_eff[b] = bus[b, PD] + ci * (vm_b - 1) + cz * (vm_b * vm_b - 1)      # demand at the solved voltage (documented ZIP model)
        ppc = {"bus": bus, "gen": gen, "branch": branch}
        gen_mask = np.array([True, True, True, True])
        with patched(bg, _subnetworks=lambda ppc_: [np.arange(nb)]):      # one island (scipy.csgraph on the concrete branch list)
            bg._normalise_slack_weights(ppc, gen_mask, np.zeros(ng, dtype=bool), np.array([], dtype=np.int64))
        swb = bus[:, SL_FAC_BUS]
        tot = w[0] + w[1] + w[2]
        for b in range(nb):
            wb = 0.0
            for k in range(ng):
                if gbus[k] == b:
                    wb = wb + w[k]
            ctx.eq(f"bus_weight/{b}", swb[b], wb / tot)
        slack = ctx.var("slack", -5., 5.)
        # setpoint injections as makeSbus gives them
        Pinj = []
        for b in range(nb):
            pg = 0.0
            for k in range(ng):
                if gbus[k] == b:
                    pg = pg + pset[k]
            Pinj.append((pg - pd_eff[b]) / base)
        mk = (lambda re, im: SComplex(re, im)) if ctx.symbolic else (lambda re, im: complex(re, im))
        Sbus = ctx.array([mk(p, 0.0) for p in Pinj])
        if ctx.mode == "sym":
            Sc = [mk(ctx.var(f"pc{b}", -5., 5.), ctx.var(f"qc{b}", -5., 5.)) for b in range(nb)]
        else:   # sample points: choose the network term so that the convergence equations hold
            Sc = [mk(Pinj[b] - swb[b] * slack, ctx.var(f"qc{b}", -5., 5.) if b != 3 else 0.0) for b in range(nb)]

        class Y2:
            def __mul__(self, V):
                return ctx.array([s.conjugate() for s in Sc])
        V = ctx.array([1.0, 1.0, 1.0, 1.0]) if not ctx.symbolic else ctx.array([mk(1.0, 0.0)] * nb)
        ref, pv, pq = np.array([0]), np.array([1, 2]), np.array([3])
        if variant == "ref_weight_zero":
            bus[1, BUS_TYPE], bus[2, BUS_TYPE] = PV, PV
        F = nf._evaluate_Fx(Y2(), V, Sbus, ref, pv, pq, swb, True, slack)
        if ctx.mode == "sym":
            for f in F:
                ctx.assume(f == 0)
        # result extraction exactly as ppci_to_pfsoln prepares it (reference buses/gens extended by the participants)
        cap = {}

        def fake_pfsoln(baseMVA, bus_, gen_, branch_, svc, tcsc, ssc, vsc, Ybus, Yf, Yt, V_, ref_, ref_gens_, **kw):
            cap.update(ref=ref_, ref_gens=ref_gens_)
            Sb = ctx.array(list(Sc))
            ps._update_p(baseMVA, bus_, gen_, ref_, np.array(gbus), Sb, ref_gens_)
            return bus_, gen_, branch_
        internal = {"bus": bus, "gen": gen, "branch": branch, "baseMVA": base, "ref": ref, "ref_gens": np.array([0]), "V": V,
                    "svc": None, "tcsc": None, "ssc": None, "vsc": None, "Ybus": None, "Yf": None, "Yt": None}
        options = {"only_v_results": False, "distributed_slack": True, "numba": False, "tdpf": False, "voltage_depend_loads": False}
        with patched(nr, pfsoln_pypower=fake_pfsoln):
            nr.ppci_to_pfsoln({"internal": internal, "bus": bus, "gen": gen}, options)
        ctx.true("participants_are_treated_as_reference_machines", sorted(int(x) for x in cap["ref_gens"]) == [0, 1, 2])
        part = [k for k in range(3) if not (isinstance(w[k], float) and w[k] == 0.0)]
        dev = {k: (gen[k, PG] - pset[k]) / w[k] for k in part}
        for a, b in zip(part, part[1:]):
            ctx.eq(f"deviation_per_weight_equal/gen{a}_vs_gen{b}", dev[a], dev[b])
        for k in range(ng):
            if k not in part:
                ctx.eq(f"non_participant_keeps_setpoint/gen{k}", gen[k, PG], pset[k])
        total_dev = (gen[0, PG] - pset[0]) + (gen[1, PG] - pset[1]) + (gen[2, PG] - pset[2])
        ctx.eq("sum_of_deviations_is_the_slack_power", total_dev, -slack * base)
    return fn


_XW = {}


def _xw_net():
    if "n" not in _XW:
        from .common import pp
        net = pp.create_empty_network()
        b = [pp.create_bus(net, 110.) for _ in range(4)]
        pp.create_ext_grid(net, b[0], slack_weight=1.0)
        for f, t in ((0, 1), (1, 2), (2, 3), (3, 0)):
            pp.create_line_from_parameters(net, b[f], b[t], 10., 0.1, 0.3, 10., 0.5)
        pp.create_gen(net, b[1], 20., vm_pu=1.0, slack_weight=2.0)
        pp.create_load(net, b[2], 40., 5.)
        pp.create_xward(net, b[3], 5., 1., 0.5, 0.1, 1., 5., 1.0, slack_weight=1.5)
        pp.create_xward(net, b[2], 2., 1., 0.5, 0.1, 1., 5., 1.0, slack_weight=0.5)
        pp.create_xward(net, b[3], 3., 1., 0.5, 0.1, 1., 5., 1.0, slack_weight=1.0, in_service=False)
        pp.create_load(net, b[3], 10., 2., scaling=0.8)
        pp.create_load(net, b[3], 3., 1., in_service=False)
        pp.create_sgen(net, b[3], 7., 1., scaling=1.1)
        pp.create_storage(net, b[3], 1., 10.)
        pp.create_ward(net, b[3], 0.4, 0.1, 0.2, 0.1)
        pp.runpp(net, distributed_slack=True, numba=False, lightsim2grid=False)
        _XW["n"] = net
    return _XW["n"]


def make_xward_results():
    """result extraction of participating xwards: the solver leaves, at the bus of an xward, PD = consumption of all elements there + the
    xwards' share of the slack power; the real result writers must report for every xward its constant power part plus its share, whatever
    else sits at the bus (scaled loads, sgens, out-of-service elements, wards, storages) and however many xwards participate"""
    def fn(ctx):
        import copy
        from .common import setcol
        rb = ctx.load("pandapower.results_bus")
        from pandapower.pypower.idx_bus import PD
        from pandapower.results import _get_aranged_lookup
        net = copy.deepcopy(_xw_net())
        V = {}
        for tab, cols in (("load", ("p_mw", "scaling")), ("sgen", ("p_mw", "scaling")), ("storage", ("p_mw",)), ("ward", ("ps_mw",)), ("xward", ("ps_mw", "slack_weight"))):
            for c in cols:
                lo, hi = (0.1, 2.) if c in ("scaling", "slack_weight") else (-10., 10.)
                V[(tab, c)] = [ctx.var(f"{tab}{r}_{c}", lo, hi) for r in range(len(net[tab]))]
                setcol(ctx, net[tab], c, V[(tab, c)])
        share = {3: ctx.var("slack_share_at_bus3", -20., 20.), 2: ctx.var("slack_share_at_bus2", -20., 20.)}
        ppc = {"bus": ctx.obj(net._ppc["bus"]), "gen": ctx.obj(net._ppc["gen"]), "branch": ctx.obj(net._ppc["branch"].real), "baseMVA": net._ppc["baseMVA"]}
        lookup = net._pd2ppc_lookups["bus"]
        ins = {t: np.asarray(net._is_elements[t], dtype=bool) for t in ("load", "sgen", "storage", "ward", "xward")}
        for pb in (2, 3):
            tot = share[pb]
            for tab, col, sign in (("load", "p_mw", 1), ("sgen", "p_mw", -1), ("storage", "p_mw", 1), ("ward", "ps_mw", 1), ("xward", "ps_mw", 1)):
                for r in range(len(net[tab])):
                    if net[tab].bus.values[r] == pb and ins[tab][r]:
                        sc = V[(tab, "scaling")][r] if (tab, "scaling") in V else 1.0
                        tot = tot + sign * V[(tab, col)][r] * sc
            ppc["bus"][lookup[pb], PD] = tot
        for t in ("res_load", "res_sgen", "res_storage", "res_ward", "res_xward"):
            net[t] = net[t].astype(object if ctx.symbolic else float)
        ar = _get_aranged_lookup(net)
        rb._get_p_q_results(net, ppc, ar)
        w = V[("xward", "slack_weight")]
        ps = V[("xward", "ps_mw")]
        res = net.res_xward.p_mw.values
        ctx.eq("xward_at_bus3_gets_its_constant_power_plus_the_whole_share_of_its_bus", res[0], ps[0] + share[3])
        ctx.eq("xward_at_bus2_gets_its_constant_power_plus_the_whole_share_of_its_bus", res[1], ps[1] + share[2])
        ctx.eq("out_of_service_xward_reports_nothing", res[2], 0.0)
        ctx.eq("load_result_is_p_times_scaling", net.res_load.p_mw.values[1], V[("load", "p_mw")][1] * V[("load", "scaling")][1])
    return fn


def make_no_bypass():
    """a network whose buses are all reference buses: without distributed slack the iteration is bypassed (every voltage is a set point), with
    distributed slack it must not be - the slack power has to be shared by the weights, which only the solver's extra equation does"""
    def fn(ctx):
        pf = ctx.load("pandapower.powerflow")
        from pandapower.pypower.idx_bus import BUS_I, BUS_TYPE, VM, bus_cols
        from pandapower.pypower.idx_gen import GEN_BUS, GEN_STATUS, SL_FAC, gen_cols
        from pandapower.pypower.idx_brch import branch_cols
        nb = 2
        bus = ctx.obj(np.zeros((nb, bus_cols)))
        gen = ctx.obj(np.zeros((nb, gen_cols)))
        for b in range(nb):
            bus[b, BUS_I], bus[b, BUS_TYPE], bus[b, VM] = b, 3, 1.0
            gen[b, GEN_BUS], gen[b, GEN_STATUS], gen[b, SL_FAC] = b, 1, ctx.var(f"weight{b}", 0.1, 2.)
        ppci = {"bus": bus, "gen": gen, "branch": np.zeros((1, branch_cols)), "baseMVA": 10., "svc": np.zeros((0, 20)), "tcsc": np.zeros((0, 30)),
                "ssc": np.zeros((0, 20)), "vsc": np.zeros((0, 30))}
        for dist in (True, False):
            called = []
            with patched(pf, _bypass_pf_and_set_results=lambda ppci_, options: called.append("bypass") or ppci_,
                         _run_newton_raphson_pf=lambda ppci_, options: called.append("newton") or ppci_):
                pf._run_pf_algorithm(ppci, {"algorithm": "nr", "ac": True, "distributed_slack": dist})
            ctx.true(f"distributed_slack_{dist}/solver_path", called == (["newton"] if dist else ["bypass"]))
    return fn


def instances(tier):
    out = [Inst("shared_bus", make_fn("general"), nvars=40, samples=3, timeout_ms=60000, raises=(ValueError, NotImplementedError), meta=dict(variant="general")),
           Inst("ext_grid_weight_zero_shares_bus_with_participant", make_fn("ref_weight_zero"), nvars=40, samples=3, timeout_ms=60000,
                raises=(ValueError, NotImplementedError), meta=dict(variant="ref_weight_zero"))]
    out.append(Inst("voltage_dependent_loads_at_participant_buses", make_fn("zip"), nvars=48, samples=3, timeout_ms=60000, raises=(ValueError, NotImplementedError),
                    meta=dict(variant="ZIP loads at the buses of participating machines, |V| != 1")))
    out.append(Inst("all_buses_are_reference_buses", make_no_bypass(), nvars=8, samples=2, raises=(ValueError, NotImplementedError), meta=dict(variant="bypass of the iteration")))
    out.append(Inst("xward_result_extraction", make_xward_results(), nvars=40, samples=3, timeout_ms=60000, raises=(ValueError, NotImplementedError),
                    meta=dict(variant="participating xwards at two buses, out-of-service xward, scaled load, sgen, storage, ward, out-of-service load")))
    if tier == "thorough":
        out.append(Inst("equal_weights", make_fn("equal"), nvars=40, samples=3, timeout_ms=60000, raises=(ValueError, NotImplementedError), meta=dict(variant="equal")))
    return out


LEVEL_TEXT = ("Hypothesis-and-conclude model checking: the real _normalise_slack_weights, the real mismatch function _evaluate_Fx(dist_slack=True) "
              "(assumed zero = converged) and the real result extraction (ppci_to_pfsoln -> _update_p -> _split_p_for_gens_at_same_bus) run on "
              "symbolic weights, setpoints, demands and network terms; z3 shows equal deviation per weight for all participants, unchanged "
              "non-participants and that the deviations sum to the slack power.")
LEVEL_NOTE = ("Trusted: Newton returns a zero of the code's own mismatch function; z3. Bounds: 4 buses, 3 participants (two share a bus), 1 non-participant.")
