"""C21 PYPOWER conversion round trip (from_ppc branch/bus conversion composed with the ppc builders)."""
import copy

import numpy as np
import pandas as pd

from .common import pp, Inst, setcol, patched
from . import c02

PROPERTY = "C21"
LEVEL = "translation_validation"
FUNCTIONS = [("pandapower.converter.pypower.from_ppc", "_from_ppc_branch"), ("pandapower.converter.pypower.from_ppc", "_from_ppc_bus"),
             ("pandapower.converter.pypower.from_ppc", "_branch_to_which"), ("pandapower.build_branch", "_calc_line_parameter"),
             ("pandapower.build_branch", "_calc_trafo_parameter"), ("pandapower.build_branch", "_calc_impedance_parameter"),
             ("pandapower.pypower.makeYbus", "branch_vectors")]
STUBS = ["create_lines_from_parameters / create_transformers_from_parameters / create_impedances / create_loads / create_sgens / create_shunts called "
         "by the converter are captured with their symbolic arguments and written into a template net that the real ppc builders then convert back"]
ASSUMPTIONS = ["ppc branch data symbolic (r >= 0, x > 0, b <= 0 for transformers), concrete bus numbers / voltage levels / tap presence (they decide line vs trafo vs impedance)",
               "converter scope: pi transformer model, no asymmetric branch data"]
OUTSIDE = ["MATPOWER .mat files (scipy.io)", "gencost", "gens / ext_grids (bus type logic is structural)", "out-of-service elements, switches"]
BOUNDS = {"quick": "one branch per instance: line-like, transformer-like (tap ratio above / below nominal, imported as hv-side or lv-side tap changer), impedance-like (different voltage levels, no tap); bus PD/QD/GS/BS", "thorough": "same"}
_cache = {}


def _template():
    if "t" not in _cache:
        net = pp.create_empty_network(sn_mva=10.)
        b0 = pp.create_bus(net, 110.)
        b1 = pp.create_bus(net, 20.)
        b2 = pp.create_bus(net, 20.)
        pp.create_ext_grid(net, b0)
        pp.create_transformer_from_parameters(net, b0, b1, 40, 110, 20, 0.3, 12, 20, 0.05, tap_side="hv", tap_neutral=0, tap_min=-2, tap_max=2,
                                              tap_step_percent=1.5, tap_pos=1, tap_changer_type="Ratio")
        pp.create_line_from_parameters(net, b1, b2, 1., 0.1, 0.3, 10., 1., g_us_per_km=1.)
        pp.create_impedance(net, b0, b1, 0.01, 0.02, 10.)
        pp.create_load(net, b2, 1., 0.5)
        pp.runpp(net, numba=False, lightsim2grid=False, trafo_model="pi", calculate_voltage_angles=True)
        _cache["t"] = net
    return _cache["t"]


def make_branch(kind, tap_side="hv", tap_range=(1.005, 1.1)):
    def fn(ctx):
        fp = ctx.load("pandapower.converter.pypower.from_ppc")
        bb = ctx.load("pandapower.build_branch")
        mY = ctx.load("pandapower.pypower.makeYbus")
        from pandapower.pypower.idx_bus import BUS_I, BASE_KV, BUS_TYPE, bus_cols
        from pandapower.pypower.idx_brch import F_BUS, T_BUS, BR_R, BR_X, BR_B, RATE_A, TAP, SHIFT, BR_STATUS, branch_cols
        base = ctx.var("baseMVA", 1., 1000.)
        bus = np.zeros((3, bus_cols))
        bus[:, BUS_I] = [0, 1, 2]
        bus[:, BUS_TYPE] = [3, 1, 1]
        bus[:, BASE_KV] = [110., 20., 20.]
        branch = ctx.obj(np.zeros((1, branch_cols)))
        f, t = {"line": (1, 2), "trafo": (0, 1), "impedance": (0, 1)}[kind]
        branch[0, F_BUS], branch[0, T_BUS], branch[0, BR_STATUS] = f, t, 1
        r, x = ctx.var("r", 0., 1.), ctx.var("x", 0.001, 1.)
        b = ctx.var("b", 0., 1.) if kind != "trafo" else -ctx.var("b_neg", 0., 0.1)
        rate = ctx.var("rateA", 1., 500.)
        branch[0, BR_R], branch[0, BR_X], branch[0, BR_B], branch[0, RATE_A] = r, x, b, rate
        tap = ctx.var("tap", *tap_range) if kind == "trafo" else 0.0
        branch[0, TAP] = tap
        ppc_in = {"bus": bus, "branch": branch, "baseMVA": base}
        orig = c02._two_port(ctx, mY, branch[0].copy())
        cap = {}

        def grab(name):
            def f_(net_, *a, **kw):
                cap[name] = kw
                return np.array([0])
            return f_
        net = copy.deepcopy(_template())
        with patched(fp, create_lines_from_parameters=grab("line"), create_transformers_from_parameters=grab("trafo"),
                     create_impedances=grab("impedance")):
            fp._from_ppc_branch(net, ppc_in, 50, **({"tap_side": tap_side} if tap_side != "hv" else {}))
        want = {"line": "line", "trafo": "trafo", "impedance": "impedance"}[kind]
        ctx.true("converted_to_the_expected_element_type", want in cap and len(cap) >= 1)
        if want not in cap:
            return
        kw = cap[want]
        first = lambda v: (v[0] if isinstance(v, (np.ndarray, list, pd.Series)) and np.ndim(v) > 0 else v)
        net.sn_mva = base
        ppc = {"bus": ctx.obj(net._ppc["bus"]), "branch": ctx.obj(net._ppc["branch"].real), "baseMVA": base}
        if kind == "line":
            for c in ("length_km", "r_ohm_per_km", "x_ohm_per_km", "c_nf_per_km", "g_us_per_km"):
                setcol(ctx, net.line, c, [first(kw[c])])
            bb._calc_line_parameter(net, ppc)
            k = net._pd2ppc_lookups["branch"]["line"][0]
        elif kind == "trafo":
            for c in ("sn_mva", "vn_hv_kv", "vn_lv_kv", "vk_percent", "vkr_percent", "pfe_kw", "i0_percent", "shift_degree", "tap_step_percent", "tap_pos"):
                setcol(ctx, net.trafo, c, [first(kw[c])])
            net.trafo["tap_side"] = kw["tap_side"]
            net.trafo["tap_neutral"] = 0
            net.trafo["tap_changer_type"] = first(kw["tap_changer_type"])
            bb._calc_trafo_parameter(net, ppc)
            k = net._pd2ppc_lookups["branch"]["trafo"][0]
        else:
            for c in ("rft_pu", "xft_pu", "rtf_pu", "xtf_pu", "bf_pu", "gf_pu", "gt_pu", "bt_pu", "sn_mva"):
                setcol(ctx, net.impedance, c, [first(kw[c])])
            bb._calc_impedance_parameter(net, ppc)
            k = net._pd2ppc_lookups["branch"]["impedance"][0]
        back = c02._two_port(ctx, mY, ppc["branch"][k])
        for key in orig:
            ctx.eq(f"round_trip_two_port/{key}", back[key], orig[key])
    return fn


def make_bus():
    def fn(ctx):
        fp = ctx.load("pandapower.converter.pypower.from_ppc")
        from pandapower.pypower.idx_bus import BUS_I, BASE_KV, BUS_TYPE, PD, QD, GS, BS, VMAX, VMIN, bus_cols
        bus = ctx.obj(np.zeros((3, bus_cols)))
        bus[:, BUS_I] = [0, 1, 2]
        bus[:, BUS_TYPE] = [3, 1, 1]
        bus[:, BASE_KV] = [110., 20., 20.]
        bus[:, VMAX], bus[:, VMIN] = 1.1, 0.9
        vals = {}
        for bb_ in (1, 2):
            for nm, col, lo, hi in (("pd", PD, -5., 5.), ("qd", QD, -5., 5.), ("gs", GS, -2., 2.), ("bs", BS, -2., 2.)):
                vals[(bb_, nm)] = ctx.var(f"{nm}{bb_}", lo, hi)
                bus[bb_, col] = vals[(bb_, nm)]
        cap = {"loads": [], "sgens": [], "shunts": []}

        def rec(key):
            def f_(net_, buses, **kw):
                cap[key].append((list(buses), kw))
            return f_
        net = pp.create_empty_network()
        with patched(fp, create_buses=lambda net_, n, **kw: np.arange(n), create_loads=rec("loads"), create_sgens=rec("sgens"), create_shunts=rec("shunts")):
            fp._from_ppc_bus(net, {"bus": bus})
        for bb_ in (1, 2):
            p, q, g, s = 0.0, 0.0, 0.0, 0.0
            for buses, kw in cap["loads"]:
                for i, bx in enumerate(buses):
                    if bx == bb_:
                        p, q = p + kw["p_mw"][i], q + kw["q_mvar"][i]
            for buses, kw in cap["sgens"]:
                for i, bx in enumerate(buses):
                    if bx == bb_:
                        p, q = p - kw["p_mw"][i], q - kw["q_mvar"][i]
            for buses, kw in cap["shunts"]:
                for i, bx in enumerate(buses):
                    if bx == bb_:
                        g, s = g + kw["p_mw"][i], s - kw["q_mvar"][i]
            ctx.eq(f"bus{bb_}_active_demand_preserved", p, vals[(bb_, "pd")])
            ctx.eq(f"bus{bb_}_reactive_demand_preserved", q, vals[(bb_, "qd")])
            ctx.eq(f"bus{bb_}_shunt_conductance_preserved", g, vals[(bb_, "gs")])
            ctx.eq(f"bus{bb_}_shunt_susceptance_preserved", s, vals[(bb_, "bs")])
    return fn


def instances(tier):
    return [Inst(f"branch_{k}", make_branch(k), nvars=24, samples=3, timeout_ms=60000, raises=(UserWarning,), meta=dict(branch=k)) for k in ("line", "trafo", "impedance")] + \
           [Inst(f"branch_trafo_tap_{side}_{nm}", make_branch("trafo", side, rng), nvars=24, samples=3, timeout_ms=60000, raises=(UserWarning,),
                 meta=dict(branch="trafo", tap_side=side, tap=nm))
            for side, nm, rng in (("hv", "below_nominal", (0.9, 0.995)), ("lv", "above_nominal", (1.005, 1.1)), ("lv", "below_nominal", (0.9, 0.995)))] + \
           [Inst("bus_injections", make_bus(), nvars=16, samples=3, meta=dict(part="bus"))]


LEVEL_TEXT = ("Translation validation of the PYPOWER import: the real _from_ppc_branch / _from_ppc_bus convert a symbolic ppc row into element "
              "parameters (captured at the create_* call), the real pandapower builders convert those parameters back, and z3 shows the "
              "two-port / the bus injections of the rebuilt ppc identical to the original, for all values within the converter's scope.")
LEVEL_NOTE = ("Trusted: the create_* table writers (captured), Newton, z3. Bounds: one branch per instance; gens, gencost, file I/O outside.")
