"""C21 PYPOWER conversion round trip (from_ppc branch/bus conversion composed with the ppc builders)."""
import copy

import numpy as np
import pandas as pd

from .common import pp, Inst, setcol, patched
from . import c02

PROPERTY = "C21"
LEVEL = "translation_validation"
FUNCTIONS = [("pandapower.converter.pypower.to_ppc", "to_ppc"), ("pandapower.pd2ppc", "_pd2ppc"), ("pandapower.converter.pypower.from_ppc", "_from_ppc_branch"), ("pandapower.converter.pypower.from_ppc", "_from_ppc_gen"), ("pandapower.converter.pypower.from_ppc", "_gen_to_which"), ("pandapower.converter.pypower.from_ppc", "_from_ppc_bus"),
             ("pandapower.converter.pypower.from_ppc", "_branch_to_which"), ("pandapower.build_branch", "_calc_line_parameter"),
             ("pandapower.build_branch", "_calc_trafo_parameter"), ("pandapower.build_branch", "_calc_impedance_parameter"),
             ("pandapower.pypower.makeYbus", "branch_vectors")]
STUBS = ["create_lines_from_parameters / create_transformers_from_parameters / create_impedances / create_loads / create_sgens / create_shunts called "
         "by the converter are captured with their symbolic arguments and written into a template net that the real ppc builders then convert back"]
ASSUMPTIONS = ["ppc branch data symbolic (r >= 0, x > 0, b <= 0 for transformers), concrete bus numbers / voltage levels / tap presence (they decide line vs trafo vs impedance)",
               "converter scope: pi transformer model, no asymmetric branch data"]
OUTSIDE = ["MATPOWER .mat files (scipy.io)", "gencost", "out-of-service elements, switches"]
BOUNDS = {"quick": "one branch per instance: line-like, transformer-like (tap ratio above / below nominal, imported as hv-side or lv-side tap changer), impedance-like (different voltage levels, no tap); bus PD/QD/GS/BS", "thorough": "same"}
_cache = {}


def _template():
    if "t" not in _cache:
        net = pp.create_empty_network(sn_mva=10.)
        b0 = pp.create_bus(net, 110.)
        b1 = pp.create_bus(net, 20.)
        b2 = pp.create_bus(net, 20.)
        pp.create_ext_grid(net, b0)
        pp.create_transformer_from_parameters(net, b0, b1, 40, 110, 20, 0.3, 12, 20, 0.05, tap_side="hv", tap_neutral=0, tap_min=-2, tap_max=2,
                                              tap_step_percent=1.5, tap_pos=1, tap_changer_type="Ratio")
        pp.create_line_from_parameters(net, b1, b2, 1., 0.1, 0.3, 10., 1., g_us_per_km=1.)
        pp.create_impedance(net, b0, b1, 0.01, 0.02, 10.)
        pp.create_load(net, b2, 1., 0.5)
        pp.runpp(net, numba=False, lightsim2grid=False, trafo_model="pi", calculate_voltage_angles=True)
        _cache["t"] = net
    return _cache["t"]


def make_branch(kind, tap_side="hv", tap_range=(1.005, 1.1)):
    def fn(ctx):
        fp = ctx.load("pandapower.converter.pypower.from_ppc")
        bb = ctx.load("pandapower.build_branch")
        mY = ctx.load("pandapower.pypower.makeYbus")
        from pandapower.pypower.idx_bus import BUS_I, BASE_KV, BUS_TYPE, bus_cols
        from pandapower.pypower.idx_brch import F_BUS, T_BUS, BR_R, BR_X, BR_B, RATE_A, TAP, SHIFT, BR_STATUS, branch_cols
        base = ctx.var("baseMVA", 1., 1000.)
        bus = np.zeros((3, bus_cols))
        bus[:, BUS_I] = [0, 1, 2]
        bus[:, BUS_TYPE] = [3, 1, 1]
        bus[:, BASE_KV] = [110., 20., 20.]
        branch = ctx.obj(np.zeros((1, branch_cols)))
        f, t = {"line": (1, 2), "trafo": (0, 1), "impedance": (0, 1)}[kind]
        branch[0, F_BUS], branch[0, T_BUS], branch[0, BR_STATUS] = f, t, 1
        r, x = ctx.var("r", 0., 1.), ctx.var("x", 0.001, 1.)
        b = ctx.var("b", 0., 1.) if kind != "trafo" else -ctx.var("b_neg", 0., 0.1)
        rate = ctx.var("rateA", 1., 500.)
        branch[0, BR_R], branch[0, BR_X], branch[0, BR_B], branch[0, RATE_A] = r, x, b, rate
        tap = ctx.var("tap", *tap_range) if kind == "trafo" else 0.0
        branch[0, TAP] = tap
        ppc_in = {"bus": bus, "branch": branch, "baseMVA": base}
        orig = c02._two_port(ctx, mY, branch[0].copy())
        cap = {}

        def grab(name):
            def f_(net_, *a, **kw):
                cap[name] = kw
                return np.array([0])
            return f_
        net = copy.deepcopy(_template())
        with patched(fp, create_lines_from_parameters=grab("line"), create_transformers_from_parameters=grab("trafo"),
                     create_impedances=grab("impedance")):
            fp._from_ppc_branch(net, ppc_in, 50, **({"tap_side": tap_side} if tap_side != "hv" else {}))
        want = {"line": "line", "trafo": "trafo", "impedance": "impedance"}[kind]
        ctx.true("converted_to_the_expected_element_type", want in cap and len(cap) >= 1)
        if want not in cap:
            return
        kw = cap[want]
        first = lambda v: (v[0] if isinstance(v, (np.ndarray, list, pd.Series)) and np.ndim(v) > 0 else v)
        net.sn_mva = base
        ppc = {"bus": ctx.obj(net._ppc["bus"]), "branch": ctx.obj(net._ppc["branch"].real), "baseMVA": base}
        if kind == "line":
            for c in ("length_km", "r_ohm_per_km", "x_ohm_per_km", "c_nf_per_km", "g_us_per_km"):
                setcol(ctx, net.line, c, [first(kw[c])])
            bb._calc_line_parameter(net, ppc)
            k = net._pd2ppc_lookups["branch"]["line"][0]
        elif kind == "trafo":
            for c in ("sn_mva", "vn_hv_kv", "vn_lv_kv", "vk_percent", "vkr_percent", "pfe_kw", "i0_percent", "shift_degree", "tap_step_percent", "tap_pos"):
                setcol(ctx, net.trafo, c, [first(kw[c])])
            net.trafo["tap_side"] = kw["tap_side"]
            net.trafo["tap_neutral"] = 0
            net.trafo["tap_changer_type"] = first(kw["tap_changer_type"])
            bb._calc_trafo_parameter(net, ppc)
            k = net._pd2ppc_lookups["branch"]["trafo"][0]
        else:
            for c in ("rft_pu", "xft_pu", "rtf_pu", "xtf_pu", "bf_pu", "gf_pu", "gt_pu", "bt_pu", "sn_mva"):
                setcol(ctx, net.impedance, c, [first(kw[c])])
            bb._calc_impedance_parameter(net, ppc)
            k = net._pd2ppc_lookups["branch"]["impedance"][0]
        back = c02._two_port(ctx, mY, ppc["branch"][k])
        for key in orig:
            ctx.eq(f"round_trip_two_port/{key}", back[key], orig[key])
    return fn


def make_bus():
    def fn(ctx):
        fp = ctx.load("pandapower.converter.pypower.from_ppc")
        from pandapower.pypower.idx_bus import BUS_I, BASE_KV, BUS_TYPE, PD, QD, GS, BS, VMAX, VMIN, bus_cols
        bus = ctx.obj(np.zeros((3, bus_cols)))
        bus[:, BUS_I] = [0, 1, 2]
        bus[:, BUS_TYPE] = [3, 1, 1]
        bus[:, BASE_KV] = [110., 20., 20.]
        bus[:, VMAX], bus[:, VMIN] = 1.1, 0.9
        vals = {}
        for bb_ in (1, 2):
            for nm, col, lo, hi in (("pd", PD, -5., 5.), ("qd", QD, -5., 5.), ("gs", GS, -2., 2.), ("bs", BS, -2., 2.)):
                vals[(bb_, nm)] = ctx.var(f"{nm}{bb_}", lo, hi)
                bus[bb_, col] = vals[(bb_, nm)]
        cap = {"loads": [], "sgens": [], "shunts": []}

        def rec(key):
            def f_(net_, buses, **kw):
                cap[key].append((list(buses), kw))
            return f_
        net = pp.create_empty_network()
        with patched(fp, create_buses=lambda net_, n, **kw: np.arange(n), create_loads=rec("loads"), create_sgens=rec("sgens"), create_shunts=rec("shunts")):
            fp._from_ppc_bus(net, {"bus": bus})
        for bb_ in (1, 2):
            p, q, g, s = 0.0, 0.0, 0.0, 0.0
            for buses, kw in cap["loads"]:
                for i, bx in enumerate(buses):
                    if bx == bb_:
                        p, q = p + kw["p_mw"][i], q + kw["q_mvar"][i]
            for buses, kw in cap["sgens"]:
                for i, bx in enumerate(buses):
                    if bx == bb_:
                        p, q = p - kw["p_mw"][i], q - kw["q_mvar"][i]
            for buses, kw in cap["shunts"]:
                for i, bx in enumerate(buses):
                    if bx == bb_:
                        g, s = g + kw["p_mw"][i], s - kw["q_mvar"][i]
            ctx.eq(f"bus{bb_}_active_demand_preserved", p, vals[(bb_, "pd")])
            ctx.eq(f"bus{bb_}_reactive_demand_preserved", q, vals[(bb_, "qd")])
            ctx.eq(f"bus{bb_}_shunt_conductance_preserved", g, vals[(bb_, "gs")])
            ctx.eq(f"bus{bb_}_shunt_susceptance_preserved", s, vals[(bb_, "bs")])
    return fn


_RT = {}


def _rt_net(tap=True):
    if tap not in _RT:
        net = pp.create_empty_network(sn_mva=10.)
        b0 = pp.create_bus(net, 110.)
        b1, b2, b3 = (pp.create_bus(net, 20.) for _ in range(3))
        pp.create_ext_grid(net, b0)
        pp.create_transformer_from_parameters(net, b0, b1, 40, 110, 20, 0.3, 12, 20, 0.05, tap_side="hv", tap_neutral=0, tap_min=-2, tap_max=2,
                                              tap_step_percent=1.5, tap_pos=1 if tap else 0, tap_changer_type="Ratio")
        pp.create_line_from_parameters(net, b1, b2, 2., 0.1, 0.3, 10., 1., g_us_per_km=2.)
        pp.create_line_from_parameters(net, b1, b3, 3., 0.2, 0.3, 10., 1., in_service=False)
        pp.create_line_from_parameters(net, b2, b3, 1., 0.1, 0.2, 12., 1.)
        pp.create_load(net, b3, 1., 0.5)
        pp.runpp(net, numba=False, lightsim2grid=False, trafo_model="pi", calculate_voltage_angles=True, check_connectivity=False)
        _RT[tap] = net
    return _RT[tap]


def make_round_trip(tap=True):
    """the real to_ppc on a net with symbolic line / transformer parameters (and an out-of-service line), its output through the real
    _from_ppc_branch, the captured elements through the real builders again: every branch that is part of the exported case comes back
    with the two-port it was exported with (incl. line conductance and transformer iron losses)"""
    def fn(ctx):
        tp = ctx.load("pandapower.converter.pypower.to_ppc")
        fp = ctx.load("pandapower.converter.pypower.from_ppc")
        bb = ctx.load("pandapower.build_branch")
        mY = ctx.load("pandapower.pypower.makeYbus")
        from pandapower.pypower.idx_brch import BR_G, branch_cols, F_BUS, T_BUS
        net = copy.deepcopy(_rt_net(tap))
        L = {c: ctx.var("line_" + c, *r) for c, r in {"r_ohm_per_km": (0.01, 1.), "x_ohm_per_km": (0.01, 1.), "c_nf_per_km": (1., 300.), "g_us_per_km": (0., 10.), "length_km": (0.1, 20.)}.items()}
        for c, v in L.items():
            col = list(net.line[c].values.astype(float))
            col[0] = v
            setcol(ctx, net.line, c, col)
        vk, m = ctx.var("vk_percent", 4., 20.), ctx.var("m_vkr", 0.5, 0.98)
        i0, nn = ctx.var("i0_percent", 0.01, 1.), ctx.var("n_pfe", 0.05, 0.95)
        T = {"vk_percent": vk, "vkr_percent": vk * (1 - m * m) / (1 + m * m), "i0_percent": i0,
             "pfe_kw": i0 / 100 * 40. * (1 - nn * nn) / (1 + nn * nn) * 1000}
        for c, v in T.items():
            setcol(ctx, net.trafo, c, [v])
        net._options["recycle"] = None
        ppc = tp.to_ppc(net, init="flat", trafo_model="pi", calculate_voltage_angles=True, check_connectivity=False)
        nbr = ppc["branch"].shape[0]
        ctx.true("out_of_service_line_is_not_exported", nbr == 3)
        g_col = ppc.get("branch_g", np.zeros(nbr))
        ctx.true("one_conductance_entry_per_exported_branch", len(g_col) == nbr)
        orig = []
        for k in range(nbr):
            row = ctx.obj(np.zeros(branch_cols))
            row[:21] = ppc["branch"][k, :21]
            row[BR_G] = g_col[k] if len(g_col) == nbr else 0.0
            orig.append(c02._two_port(ctx, mY, row))
        cap = {}

        def grab(name):
            def f_(net_, *a, **kw):
                cap[name] = kw
                return np.arange(len(next(iter(kw.values()))) if kw else 0)
            return f_
        net2 = copy.deepcopy(_rt_net(tap))
        ppc_in = dict(ppc)
        ppc_in["branch"] = ppc["branch"].copy()
        with patched(fp, create_lines_from_parameters=grab("line"), create_transformers_from_parameters=grab("trafo"), create_impedances=grab("impedance")):
            fp._from_ppc_branch(net2, ppc_in, 50)
        tkey = "trafo" if tap else "impedance"       # a transformer at nominal ratio is imported as an impedance element (different voltage levels, no tap)
        ctx.true("two_lines_and_one_transformer_come_back", "line" in cap and tkey in cap and len(cap["line"]["r_ohm_per_km"]) == 2 and len(cap[tkey]["sn_mva"]) == 1)
        if "line" not in cap or tkey not in cap:
            return
        # rebuild: net2 keeps lines 0 and 2 (the exported ones) with the imported parameters
        net2.line = net2.line.drop(1).reset_index(drop=True)
        net2._is_elements = None
        kwl, kwt = cap["line"], cap[tkey]
        for c in ("length_km", "r_ohm_per_km", "x_ohm_per_km", "c_nf_per_km", "g_us_per_km"):
            v = kwl[c]
            vals = [v, v] if np.ndim(v) == 0 else list(v)
            setcol(ctx, net2.line, c, vals)
        first = lambda v: (v[0] if np.ndim(v) > 0 else v)
        if tap:
            for c in ("sn_mva", "vn_hv_kv", "vn_lv_kv", "vk_percent", "vkr_percent", "pfe_kw", "i0_percent", "shift_degree", "tap_step_percent", "tap_pos"):
                setcol(ctx, net2.trafo, c, [first(kwt[c])])
            net2.trafo["tap_side"] = kwt["tap_side"]
            net2.trafo["tap_neutral"] = 0
            net2.trafo["tap_changer_type"] = first(kwt["tap_changer_type"])
        else:
            hv, lv = int(net2.trafo.hv_bus.values[0]), int(net2.trafo.lv_bus.values[0])
            net2.trafo = net2.trafo.iloc[0:0]
            pp.create_impedance(net2, int(first(kwt["from_buses"])), int(first(kwt["to_buses"])), 0.01, 0.01, 10.)
            for c in ("rft_pu", "xft_pu", "rtf_pu", "xtf_pu", "bf_pu", "gf_pu", "gt_pu", "bt_pu", "sn_mva"):
                setcol(ctx, net2.impedance, c, [first(kwt[c])])
        p2 = ctx.load("pandapower.pd2ppc")
        net2._options["recycle"] = None
        pp2, ppci2 = p2._pd2ppc(net2)
        back = {}
        for k in range(ppci2["branch"].shape[0]):
            key = (int(ppci2["branch"][k, F_BUS].real), int(ppci2["branch"][k, T_BUS].real))
            back[key] = c02._two_port(ctx, mY, ppci2["branch"][k])
        for k in range(nbr):
            key = (int(ppc["branch"][k, F_BUS].real), int(ppc["branch"][k, T_BUS].real))
            ctx.true(f"branch{k}_comes_back_between_the_same_buses", key in back)
            if key not in back:
                continue
            for q in orig[k]:
                # tolerance: the second line keeps its concrete (float) parameters, see DESIGN 8.2
                a_, b_ = back[key][q], orig[k][q]
                if hasattr(a_, "imag") and hasattr(b_, "imag"):
                    ctx.close(f"round_trip_two_port/branch{k}/{q}.re", a_.real, b_.real, 1e-7)
                    ctx.close(f"round_trip_two_port/branch{k}/{q}.im", a_.imag, b_.imag, 1e-7)
                else:
                    ctx.close(f"round_trip_two_port/branch{k}/{q}", a_, b_, 1e-7)
    return fn


def make_gen():
    """generator import: per bus the first generator row becomes the voltage controlling unit (ext_grid at the reference bus, gen at a PV
    bus) and carries that row's own voltage set point, active power and limits; further rows at the bus come back as sgens with their own
    p / q (in an exported OPF case these are the controllable sgens / loads, whose VG column holds a placeholder)"""
    def fn(ctx):
        fp = ctx.load("pandapower.converter.pypower.from_ppc")
        from pandapower.pypower.idx_bus import BUS_I, BASE_KV, BUS_TYPE, VA, bus_cols
        from pandapower.pypower.idx_gen import GEN_BUS, VG, PG, QG, GEN_STATUS, PMAX, PMIN, QMAX, QMIN, MBASE, gen_cols
        bus = np.zeros((3, bus_cols))
        bus[:, BUS_I] = [0, 1, 2]
        bus[:, BUS_TYPE] = [3, 2, 1]
        bus[:, BASE_KV] = 20.
        rows = [0, 0, 1, 1, 2]                    # bus of every generator row
        gen = ctx.obj(np.zeros((len(rows), gen_cols)))
        vg, pg, qg = [], [], []
        for r, b in enumerate(rows):
            vg.append(ctx.var(f"vg{r}", 0.9, 1.1)); pg.append(ctx.var(f"pg{r}", 0.1, 10.)); qg.append(ctx.var(f"qg{r}", -5., 5.))
            gen[r, GEN_BUS], gen[r, GEN_STATUS], gen[r, VG], gen[r, PG], gen[r, QG] = b, 1, vg[r], pg[r], qg[r]
            gen[r, PMAX], gen[r, PMIN], gen[r, QMAX], gen[r, QMIN], gen[r, MBASE] = 100., -100., 100., -100., 10.
        cap = {"ext_grid": [], "gen": [], "sgen": []}

        def eg(net_, **kw):
            cap["ext_grid"].append(kw)
            return len(cap["ext_grid"]) - 1

        def gens(net_, **kw):
            cap["gen"].append(kw)
            return np.arange(len(kw["buses"]))

        def sgens(net_, **kw):
            cap["sgen"].append(kw)
            return np.arange(len(kw["buses"]))
        net = pp.create_empty_network()
        pp.create_buses(net, 3, 20.)
        with patched(fp, create_ext_grid=eg, create_gens=gens, create_sgens=sgens):
            fp._from_ppc_gen(net, {"bus": bus, "gen": gen})
        ctx.true("one_ext_grid_one_gen_three_sgens", len(cap["ext_grid"]) == 1 and len(cap["gen"]) == 1 and len(cap["gen"][0]["buses"]) == 1
                 and len(cap["sgen"]) == 1 and len(cap["sgen"][0]["buses"]) == 3)
        if not (len(cap["ext_grid"]) == 1 and len(cap["gen"]) == 1 and len(cap["sgen"]) == 1):
            return
        ctx.eq("ext_grid_keeps_the_set_point_of_its_own_row", cap["ext_grid"][0]["vm_pu"], vg[0])
        ctx.eq("gen_keeps_the_set_point_of_its_own_row", cap["gen"][0]["vm_pu"][0], vg[2])
        ctx.eq("gen_keeps_its_active_power", cap["gen"][0]["p_mw"][0], pg[2])
        for k, r in enumerate((1, 3, 4)):
            ctx.eq(f"further_row_{r}_comes_back_as_sgen_with_its_own_p", cap["sgen"][0]["p_mw"][k], pg[r])
            ctx.eq(f"further_row_{r}_comes_back_as_sgen_with_its_own_q", cap["sgen"][0]["q_mvar"][k], qg[r])
    return fn


def instances(tier):
    return [Inst(f"branch_{k}", make_branch(k), nvars=24, samples=3, timeout_ms=60000, raises=(UserWarning,), meta=dict(branch=k)) for k in ("line", "trafo", "impedance")] + \
           [Inst(f"branch_trafo_tap_{side}_{nm}", make_branch("trafo", side, rng), nvars=24, samples=3, timeout_ms=60000, raises=(UserWarning,),
                 meta=dict(branch="trafo", tap_side=side, tap=nm))
            for side, nm, rng in (("hv", "below_nominal", (0.9, 0.995)), ("lv", "above_nominal", (1.005, 1.1)), ("lv", "below_nominal", (0.9, 0.995)))] + \
           [Inst(f"round_trip_to_ppc_from_ppc_{nm}", make_round_trip(tp_), nvars=40, samples=2, timeout_ms=60000, raises=(UserWarning,),
                 meta=dict(part="to_ppc -> from_ppc", net="trafo with iron losses (%s), line with conductance, out-of-service line" % nm))
            for nm, tp_ in (("tapped_trafo", True), ("nominal_ratio_trafo", False))] + \
           [Inst("gen_import", make_gen(), nvars=24, samples=3, meta=dict(part="gen", rows="2 at the reference bus, 2 at a PV bus, 1 at a PQ bus"))] + \
           [Inst("bus_injections", make_bus(), nvars=16, samples=3, meta=dict(part="bus"))]


LEVEL_TEXT = ("Translation validation of the PYPOWER import: the real _from_ppc_branch / _from_ppc_bus convert a symbolic ppc row into element "
              "parameters (captured at the create_* call), the real pandapower builders convert those parameters back, and z3 shows the "
              "two-port / the bus injections of the rebuilt ppc identical to the original, for all values within the converter's scope.")
LEVEL_NOTE = ("Trusted: the create_* table writers (captured), Newton, z3. Bounds: one branch per instance; gen import as one instance; gencost and file I/O outside.")
