"""C12 Time-series results equal a fresh power flow at every time step (recycling shortcuts)."""
import copy

import numpy as np
import pandas as pd

from .common import pp, Inst, patched

PROPERTY = "C12"
LEVEL = "model_checking"
FUNCTIONS = [("pandapower.control.controller.const_control", "ConstControl.set_recycle"),
             ("pandapower.timeseries.run_time_series", "_check_controller_recyclability"),
             ("pandapower.timeseries.run_time_series", "_check_output_writer_recyclability"),
             ("pandapower.powerflow", "_recycled_powerflow"), ("pandapower.pd2ppc", "_ppc2ppci"), ("pandapower.pd2ppc", "_pd2ppc"),
             ("pandapower.pf.run_newton_raphson_pf", "_run_ac_pf_without_qlims_enforced"),
             ("pandapower.pf.run_newton_raphson_pf", "_get_Y_bus"), ("pandapower.pf.run_newton_raphson_pf", "_get_Sbus"),
             ("pandapower.pf.run_dc_pf", "_run_dc_pf"), ("pandapower.pypower.makeBdc", "makeBdc"),
             ("pandapower.timeseries.read_batch_results", "v_to_i_s"), ("pandapower.timeseries.output_writer", "OutputWriter.get_batch_outputs"),
             ("pandapower.timeseries.read_batch_results", "get_batch_line_results"), ("pandapower.timeseries.read_batch_results", "get_batch_trafo_results"),
             ("pandapower.timeseries.read_batch_results", "get_batch_trafo3w_results"), ("pandapower.pf.pfsoln_numba", "calc_branch_flows_batch"),
             ("pandapower.pypower.makeYbus", "makeYbus"), ("pandapower.pypower.makeSbus", "makeSbus"),
             ("pandapower.build_bus", "_calc_pq_elements_and_add_on_ppc"), ("pandapower.build_branch", "_calc_line_parameter"),
             ("pandapower.build_branch", "_calc_trafo_parameter"), ("pandapower.build_gen", "_build_gen_ppc"),
             ("pandapower.timeseries.output_writer", "OutputWriter.get_batch_outputs")]
STUBS = ["polar_to_rad (cmath.rect, compiled) -> unit-circle phasors of the same symbolic vm / va (batch_flows_* only)", "newtonpf (the Newton iteration) -> captures the (Ybus, Sbus, V0, bus types) it is given and stops: two runs that hand Newton the same "
         "system return the same solution", "dcpf (linear solve) -> captures (B, Pbus, Va0)"]
ASSUMPTIONS = ["one ConstControl-controlled column at a time becomes symbolic (new value x_new in a positive range), previous step concrete",
               "the recycle flags are those the real ConstControl.set_recycle and _check_controller_recyclability compute for that controller"]
OUTSIDE = ["controllers other than ConstControl", "OutputWriter file formats"]
BOUNDS = {"quick": "3 buses (110/20/20 kV), trafo, line, load, sgen, gen, storage; 24 (element, variable) pairs x {runpp, rundcpp}; 5 pairs on a net with an open line switch, an open trafo switch and a line at an out of service bus; batch branch flows on a 5-bus feeder (all supplied / unsupplied branches / out of service bus)",
          "thorough": "same + trafo3w net"}

AC_PAIRS = [("load", "p_mw"), ("load", "q_mvar"), ("load", "scaling"), ("sgen", "p_mw"), ("sgen", "q_mvar"), ("sgen", "scaling"),
            ("storage", "p_mw"), ("storage", "q_mvar"), ("gen", "p_mw"), ("gen", "vm_pu"), ("gen", "scaling"),
            ("ext_grid", "vm_pu"), ("ext_grid", "va_degree"),
            ("trafo", "tap_pos"), ("trafo", "vk_percent"), ("trafo", "vkr_percent"), ("trafo", "i0_percent"), ("trafo", "sn_mva"), ("trafo", "shift_degree"),
            ("line", "r_ohm_per_km"), ("line", "x_ohm_per_km"), ("line", "c_nf_per_km"), ("line", "length_km"), ("line", "parallel")]
DC_PAIRS = [("load", "p_mw"), ("sgen", "p_mw"), ("gen", "p_mw"), ("ext_grid", "va_degree"), ("trafo", "tap_pos"), ("trafo", "vk_percent"),
            ("trafo", "shift_degree"), ("line", "x_ohm_per_km"), ("line", "length_km")]
RANGE = {"p_mw": (0.1, 5.), "q_mvar": (0.1, 5.), "scaling": (0.1, 2.), "vm_pu": (0.9, 1.1), "va_degree": (-10., 10.), "tap_pos": (-2., 2.),
         "vk_percent": (4., 20.), "vkr_percent": (0.1, 1.), "vk_hv_percent": (4., 20.), "shift_mv_degree": (-30., 30.), "i0_percent": (0.01, 1.), "sn_mva": (10., 100.), "shift_degree": (-30., 30.),
         "r_ohm_per_km": (0.01, 1.), "x_ohm_per_km": (0.01, 1.), "c_nf_per_km": (1., 300.), "length_km": (0.1, 20.), "parallel": (1., 3.)}
_cache = {}


class _Stop(Exception):
    pass


def _net(element, var, ac, topo=None):
    key = (element, var, ac, topo)
    if key in _cache:
        return _cache[key]
    from pandapower.control import ConstControl
    from pandapower.timeseries.run_time_series import _check_controller_recyclability
    net = pp.create_empty_network()
    b0 = pp.create_bus(net, 110.)
    b1 = pp.create_bus(net, 20.)
    b2 = pp.create_bus(net, 20.)
    pp.create_ext_grid(net, b0, vm_pu=1.01)
    pp.create_transformer_from_parameters(net, b0, b1, 40, 110, 20, 0.3, 12, 20, 0.05, tap_side="hv", tap_neutral=0, tap_min=-2, tap_max=2,
                                          tap_step_percent=1.5, tap_pos=0, tap_changer_type="Ratio", shift_degree=0.)
    pp.create_line_from_parameters(net, b1, b2, 2., 0.1, 0.1, 10, 1.)
    pp.create_load(net, b2, 1., 0.5)
    pp.create_sgen(net, b2, 0.2, 0.1)
    pp.create_storage(net, b2, 0.1, 1., q_mvar=0.05)
    pp.create_gen(net, b1, 0.5, vm_pu=1.01)
    if topo == "with_trafo3w":
        b4 = pp.create_bus(net, 10.)
        pp.create_transformer3w_from_parameters(net, b0, b2, b4, 110, 20, 10, 40, 20, 20, 10, 10, 10, .3, .3, .3, 20, 0.05, tap_side="hv", tap_neutral=0,
                                                tap_min=-2, tap_max=2, tap_step_percent=1.5, tap_pos=0, tap_changer_type="Ratio")
        pp.create_load(net, b4, 0.5, 0.1)
    if topo == "open_switches":
        # branches whose ppc rows differ from the element tables: an end moved to an auxiliary bus by an open switch / an out of service bus
        b3 = pp.create_bus(net, 20., in_service=False)
        pp.create_line_from_parameters(net, b1, b2, 3., 0.2, 0.15, 12, 1.)
        pp.create_transformer_from_parameters(net, b0, b1, 25, 110, 20, 0.4, 10, 15, 0.06, tap_side="hv", tap_neutral=0, tap_min=-2, tap_max=2,
                                              tap_step_percent=1.5, tap_pos=1, tap_changer_type="Ratio", shift_degree=0.)
        pp.create_line_from_parameters(net, b2, b3, 1., 0.1, 0.1, 10, 1.)
        pp.create_switch(net, b2, 1, "l", closed=False)
        pp.create_switch(net, b1, 1, "t", closed=False)
    ConstControl(net, element, var, element_index=[0], profile_name=None, data_source=None)
    recycle = _check_controller_recyclability(net)
    if ac:
        pp.runpp(net, numba=False, calculate_voltage_angles=True, lightsim2grid=False, check_connectivity=False)
    else:
        pp.rundcpp(net, check_connectivity=False)
    _cache[key] = (net, recycle)
    return _cache[key]


TOL = 1e-7


def _close(ctx, name, a, b):
    """|a-b| <= TOL componentwise (cached float matrices vs exact terms differ by rounding at x_new == x_old)"""
    if hasattr(a, "imag") and hasattr(b, "imag") and (isinstance(a, complex) or isinstance(b, complex) or type(a).__name__ in ("SComplex", "complex128")
                                                      or type(b).__name__ in ("SComplex", "complex128")):
        ctx.close(name + ".re", a.real, b.real, TOL)
        ctx.close(name + ".im", a.imag, b.imag, TOL)
    else:
        ctx.close(name, a, b, TOL)


def _symbolic_state(ctx, net):
    """the state left by the previous step, as object arrays / dense stand-ins so that symbolic rows can be written into it"""
    if not ctx.symbolic:
        return
    import scipy.sparse as sp
    from symx.shim import DMat
    for k in ("bus", "gen", "branch"):
        net._ppc[k] = ctx.obj(net._ppc[k].real)
        net._ppc["internal"][k] = ctx.obj(net._ppc["internal"][k].real)
    for k, v in list(net._ppc["internal"].items()):
        if sp.issparse(v):
            net._ppc["internal"][k] = DMat(v)
        elif isinstance(v, np.ndarray) and v.dtype.kind in "fc" and k in ("Pbusinj", "Pfinj", "shift", "Sbus", "V"):
            net._ppc["internal"][k] = ctx.obj(v)


def _dense(ctx, M):
    if hasattr(M, "toarray"):
        A = M.toarray()
    elif hasattr(M, "A"):
        A = M.A
    else:
        A = M
    return np.asarray(A)


def make_ac(element, var, topo=None):
    def fn(ctx):
        net0, recycle = _net(element, var, True, topo)
        if not isinstance(recycle, dict):
            ctx.true("not_recycled_by_design", True)
            return
        lo, hi = RANGE[var]
        x1 = ctx.var("x_new", lo, hi)
        pf = ctx.load("pandapower.powerflow")
        nr = ctx.load("pandapower.pf.run_newton_raphson_pf")
        p2 = ctx.load("pandapower.pd2ppc")
        mY = ctx.load("pandapower.pypower.makeYbus")
        mS = ctx.load("pandapower.pypower.makeSbus")
        pv_ = ctx.load("pandapower.pf.ppci_variables")
        cap = {}

        def fake_newton(Ybus, Sbus, V0, ref, pv, pq, ppci, options, makeYbus=None):
            cap.update(Ybus=Ybus, Sbus=Sbus, V0=V0, ref=ref, pv=pv, pq=pq)
            raise _Stop()

        def prep(net):
            net[element] = net[element].copy()
            net[element][var] = net[element][var].astype(object if ctx.symbolic else float)
            net[element].at[0, var] = x1
        # ---- recycled step
        net = copy.deepcopy(net0)
        _symbolic_state(ctx, net)
        prep(net)
        with patched(nr, newtonpf=fake_newton):
            try:
                pf._recycled_powerflow(net, recycle=dict(recycle))
            except _Stop:
                pass
        rec = dict(cap)
        cap.clear()
        # ---- fresh step: the complete conversion of the updated net
        fnet = copy.deepcopy(net0)
        prep(fnet)
        fnet._options["recycle"] = None
        fnet._options["init_vm_pu"] = "results"
        fnet._options["init_va_degree"] = "results"
        ppc, ppci = p2._pd2ppc(fnet)
        baseMVA, bus, gen, branch, svc, tcsc, ssc, vsc, ref, pv, pq, *_, V0, ref_gens = pv_._get_pf_variables_from_ppci(ppci, True)
        Ybus, Yf, Yt = mY.makeYbus(baseMVA, bus, branch)
        Sbus = mS.makeSbus(baseMVA, bus, gen)
        ctx.true("newton_reached", "Ybus" in rec)
        if "Ybus" not in rec:
            return
        A, B = _dense(ctx, rec["Ybus"]), _dense(ctx, Ybus)
        ctx.true("same_bus_types", list(rec["ref"]) == list(ref) and list(rec["pv"]) == list(pv) and list(rec["pq"]) == list(pq))
        n = B.shape[0]
        for i in range(n):
            for j in range(n):
                _close(ctx, f"Ybus[{i},{j}]", A[i, j], B[i, j])
            # Newton reads P at pv and pq buses and Q at pq buses only (the slack's P and the pv buses' Q are outputs)
            if i in list(pv) or i in list(pq):
                ctx.close(f"Sbus_P[{i}]", rec["Sbus"][i].real, Sbus[i].real, TOL)
            if i in list(pq):
                ctx.close(f"Sbus_Q[{i}]", rec["Sbus"][i].imag, Sbus[i].imag, TOL)
        for i in list(ref) + list(pv):
            a, b = rec["V0"][i], V0[i]
            ctx.close(f"V0_abs2[{i}]", a.real * a.real + a.imag * a.imag, b.real * b.real + b.imag * b.imag, TOL)
        for i in list(ref):
            _close(ctx, f"V0_ref[{i}]", rec["V0"][i], V0[i])
    return fn


def make_dc(element, var, topo=None):
    def fn(ctx):
        net0, recycle = _net(element, var, False, topo)
        if not isinstance(recycle, dict):
            ctx.true("not_recycled_by_design", True)
            return
        lo, hi = RANGE[var]
        x1 = ctx.var("x_new", lo, hi)
        pf = ctx.load("pandapower.powerflow")
        dc = ctx.load("pandapower.pf.run_dc_pf")
        p2 = ctx.load("pandapower.pd2ppc")
        cap = {}

        def fake_dcpf(B, Pbus, Va0, ref, pv, pq):
            cap.update(B=B, Pbus=Pbus, Va0=Va0, ref=ref, pv=pv, pq=pq)
            raise _Stop()

        def prep(net):
            net[element] = net[element].copy()
            net[element][var] = net[element][var].astype(object if ctx.symbolic else float)
            net[element].at[0, var] = x1
        net = copy.deepcopy(net0)
        _symbolic_state(ctx, net)
        prep(net)
        with patched(dc, dcpf=fake_dcpf):
            try:
                pf._recycled_powerflow(net, recycle=dict(recycle))
            except _Stop:
                pass
            rec = dict(cap)
            cap.clear()
            fnet = copy.deepcopy(net0)
            prep(fnet)
            fnet._options["recycle"] = None
            ppc, ppci = p2._pd2ppc(fnet)
            try:
                dc._run_dc_pf(ppci, False)
            except _Stop:
                pass
        ctx.true("dcpf_reached", "B" in rec and "B" in cap)
        if "B" not in rec or "B" not in cap:
            return
        A, B = _dense(ctx, rec["B"]), _dense(ctx, cap["B"])
        for i in range(B.shape[0]):
            for j in range(B.shape[1]):
                _close(ctx, f"Bbus[{i},{j}]", A[i, j], B[i, j])
            if i not in list(cap["ref"]):      # dcpf reads Pbus at the pv/pq buses only; the slack's P is an output
                _close(ctx, f"Pbus[{i}]", rec["Pbus"][i], cap["Pbus"][i])
        for i in list(cap["ref"]):
            _close(ctx, f"Va0_ref[{i}]", rec["Va0"][i], cap["Va0"][i])
    return fn


_BNET = {}


def _batch_net(trafo_loading):
    if trafo_loading in _BNET:
        return _BNET[trafo_loading]
    net = pp.create_empty_network()
    b = [pp.create_bus(net, v) for v in (110., 20., 20., 10.)]
    pp.create_ext_grid(net, b[0])
    pp.create_transformer_from_parameters(net, b[0], b[1], 40, 110, 20, 0.3, 12, 20, 0.05, df=0.8, parallel=2)
    pp.create_line_from_parameters(net, b[1], b[2], 2., 0.1, 0.1, 10, 0.4, df=0.9, parallel=2)
    pp.create_line_from_parameters(net, b[1], b[2], 3., 0.2, 0.1, 10, 0.3)
    pp.create_transformer3w_from_parameters(net, b[0], b[2], b[3], 110, 20, 10, 40, 20, 20, 10, 11, 12, .3, .31, .32, 20, 0.05)
    pp.create_load(net, b[2], 3., 1.)
    pp.create_load(net, b[3], 1., 0.5)
    pp.runpp(net, numba=False, trafo_loading=trafo_loading, lightsim2grid=False)
    _BNET[trafo_loading] = net
    return net


def make_batch(trafo_loading):
    """(B) value level: the batch readers against the per-step result writers on the same symbolic branch currents / powers"""
    def fn(ctx):
        rb = ctx.load("pandapower.results_branch")
        br = ctx.load("pandapower.timeseries.read_batch_results")
        net = copy.deepcopy(_batch_net(trafo_loading))
        nbr = net._ppc["branch"].shape[0]
        i_ft = ctx.obj(np.zeros((nbr, 2)))
        s_ft = ctx.obj(np.zeros((nbr, 2)))
        for k in range(nbr):
            for side in (0, 1):
                i_ft[k, side] = ctx.var(f"i{k}_{side}", 0., 2.)
                s_ft[k, side] = ctx.var(f"s{k}_{side}", 0., 60.)
        for tab, cols in (("line", ["max_i_ka", "df", "parallel"]), ("trafo", ["sn_mva", "vn_hv_kv", "vn_lv_kv", "df", "parallel"]),
                          ("trafo3w", ["sn_hv_mva", "sn_mv_mva", "sn_lv_mva", "vn_hv_kv", "vn_mv_kv", "vn_lv_kv"])):
            for c in cols:
                net[tab][c] = ctx.series([ctx.var(f"{tab}{r}_{c}", 0.5, 120.) for r in range(len(net[tab]))], index=net[tab].index)
        ppc = {"bus": ctx.obj(net._ppc["bus"]), "branch": ctx.obj(net._ppc["branch"].real)}
        for t in ("res_line", "res_trafo", "res_trafo3w"):
            net[t] = net[t].astype(object if ctx.symbolic else float)
        rb._get_line_results(net, ppc, i_ft)
        rb._get_trafo_results(net, ppc, s_ft, i_ft)
        rb._get_trafo3w_results(net, ppc, s_ft, i_ft)
        i_abs = (i_ft[:, 0][None, :], i_ft[:, 1][None, :])
        s_abs = (s_ft[:, 0][None, :], s_ft[:, 1][None, :])
        i_ka, i_from_ka, i_to_ka, ld = br.get_batch_line_results(net, i_abs)
        for r in range(len(net.line)):
            for nm, arr in (("i_ka", i_ka), ("i_from_ka", i_from_ka), ("i_to_ka", i_to_ka), ("loading_percent", ld)):
                ctx.eq(f"batch_equals_step/res_line.{nm}[{r}]", arr[0, r], net.res_line[nm].values[r])
        i_ka, i_hv, i_lv, s_mva, ld = br.get_batch_trafo_results(net, i_abs, s_abs)
        for r in range(len(net.trafo)):
            for nm, arr in (("i_hv_ka", i_hv), ("i_lv_ka", i_lv), ("loading_percent", ld)):
                ctx.eq(f"batch_equals_step/res_trafo.{nm}[{r}]", arr[0, r], net.res_trafo[nm].values[r])
        i_h, i_m, i_l, ld = br.get_batch_trafo3w_results(net, i_abs, s_abs)
        for r in range(len(net.trafo3w)):
            ctx.eq(f"batch_equals_step/res_trafo3w.loading_percent[{r}]", ld[0, r], net.res_trafo3w["loading_percent"].values[r])
    return fn


_FNET = {}


def _flow_net(kind):
    """radial feeder; kind 'unsupplied': line 1 is out of service, so lines 2 and 3 are in service but not part of the solved network"""
    if kind not in _FNET:
        net = pp.create_empty_network()
        b = [pp.create_bus(net, 20.) for _ in range(5)]
        pp.create_ext_grid(net, b[0])
        for k in range(4):
            pp.create_line_from_parameters(net, b[k], b[k + 1], 1. + k, 0.1, 0.1, 10, 0.4)
        pp.create_load(net, b[1], 1., 0.3)
        pp.create_load(net, b[4], 0.5, 0.1)
        if kind == "unsupplied":
            net.line.loc[1, "in_service"] = False
        elif kind == "bus_out_of_service":
            net.bus.loc[4, "in_service"] = False
            net.load.loc[1, "in_service"] = False
        pp.runpp(net, numba=False, lightsim2grid=False, recycle=dict(trafo=False, gen=False, bus_pq=True))
        _FNET[kind] = net
    return _FNET[kind]


def make_batch_flows(kind):
    """(B) branch flows of the batch reader: the real v_to_i_s on symbolic step voltages gives, for every branch of the net, the flow
    V_f conj(Yf V) of the solved network where the branch is part of it and NaN where it is not (as the per-step result writer does)"""
    def fn(ctx):
        br = ctx.load("pandapower.timeseries.read_batch_results")
        from pandapower.pypower.idx_brch import F_BUS, T_BUS
        from pandapower.pypower.idx_bus import BASE_KV
        from symx import core
        net = copy.deepcopy(_flow_net(kind))
        internal = net._ppc["internal"]
        nbi = internal["bus"].shape[0]
        vm = [ctx.var(f"vm{k}", 0.8, 1.2) for k in range(nbi)]
        va = [ctx.var(f"va{k}", -60., 60.) for k in range(nbi)]
        if ctx.symbolic:
            V = [core.polar(vm[k], va[k]) for k in range(nbi)]
        else:
            import cmath
            V = [cmath.rect(vm[k], np.deg2rad(va[k])) for k in range(nbi)]
        Yf, Yt = np.asarray(internal["Yf"].todense()), np.asarray(internal["Yt"].todense())
        extra = {}
        if ctx.symbolic:
            from symx.shim import DMat
            internal["Yf"], internal["Yt"] = DMat(internal["Yf"]), DMat(internal["Yt"])
            extra["polar_to_rad"] = lambda vm_, va_: ctx.array(V).reshape(1, -1)
        with patched(br, **extra):
            (sf, st), (sfa, sta), (ifa, ita) = br.v_to_i_s(net, ctx.array(vm).reshape(1, -1), ctx.array(va).reshape(1, -1))
        nbr = net._ppc["branch"].shape[0]
        ctx.true("one_column_per_branch_of_the_net", sf.shape == (1, nbr) and ita.shape == (1, nbr))
        part = np.asarray(internal["branch_is"], dtype=bool)
        base = internal["baseMVA"]
        pos = -1
        for k in range(nbr):
            if not part[k]:
                ctx.true(f"branch_outside_the_solved_network_reads_nan/{k}", bool(sf[0, k] != sf[0, k]) and bool(ifa[0, k] != ifa[0, k]))
                continue
            pos += 1
            fb, tb = int(internal["branch"][pos, F_BUS].real), int(internal["branch"][pos, T_BUS].real)
            If = sum(Yf[pos, j] * V[j] for j in range(nbi) if Yf[pos, j] != 0)
            It = sum(Yt[pos, j] * V[j] for j in range(nbi) if Yt[pos, j] != 0)
            Sf, St = V[fb] * If.conjugate() * base, V[tb] * It.conjugate() * base
            for nm, got, want in (("p_from", sf[0, k].real, Sf.real), ("q_from", sf[0, k].imag, Sf.imag), ("p_to", st[0, k].real, St.real), ("q_to", st[0, k].imag, St.imag)):
                ctx.close(f"batch_flow_is_the_flow_of_the_solved_network/{k}.{nm}", got, want, 1e-9)
    return fn


def _outputs_net(kind):
    if ("out", kind) not in _FNET:
        net = pp.create_empty_network()
        if kind == "lines_only":
            b = [pp.create_bus(net, 20.) for _ in range(3)]
            pp.create_ext_grid(net, b[0])
            pp.create_line_from_parameters(net, b[0], b[1], 2., 0.1, 0.1, 10, 0.4)
            pp.create_line_from_parameters(net, b[1], b[2], 2., 0.1, 0.1, 10, 0.4)
            pp.create_load(net, b[2], 1., 0.3)
        else:   # trafo_only
            b = [pp.create_bus(net, v) for v in (110., 20.)]
            pp.create_ext_grid(net, b[0])
            pp.create_transformer_from_parameters(net, b[0], b[1], 40, 110, 20, 0.3, 12, 20, 0.05)
            pp.create_load(net, b[1], 1., 0.3)
        pp.runpp(net, numba=False, lightsim2grid=False)
        _FNET[("out", kind)] = net
    return _FNET[("out", kind)]


def make_batch_outputs(kind):
    """(B) the real OutputWriter.get_batch_outputs (branch flows v_to_i_s replaced by symbolic per-branch currents / powers, see batch_flows_*):
    every logged (table, variable) gets one frame whose columns are the elements of that table - none if the net has no such element -
    with the values the per-step result writer reports for the same currents"""
    def fn(ctx):
        ow_mod = ctx.load("pandapower.timeseries.output_writer")
        rb = ctx.load("pandapower.results_branch")
        net = copy.deepcopy(_outputs_net(kind))
        nbr = net._ppc["branch"].shape[0]
        i_ft = ctx.obj(np.zeros((nbr, 2)))
        s_ft = ctx.obj(np.zeros((nbr, 2)))
        for k in range(nbr):
            for side in (0, 1):
                i_ft[k, side] = ctx.var(f"i{k}_{side}", 0., 2.)
                s_ft[k, side] = ctx.var(f"s{k}_{side}", 0., 60.)
        i_abs = (i_ft[:, 0][None, :], i_ft[:, 1][None, :])
        s_abs = (s_ft[:, 0][None, :], s_ft[:, 1][None, :])
        ow = object.__new__(ow_mod.OutputWriter)
        ow.time_steps = [0]
        ow.output = {"ppc_bus.vm": pd.DataFrame(np.ones((1, len(net.bus)))), "ppc_bus.va": pd.DataFrame(np.zeros((1, len(net.bus))))}
        ow.output_list = []
        wanted = [("res_line", "loading_percent"), ("res_line", "i_ka"), ("res_trafo", "loading_percent"), ("res_trafo", "i_hv_ka"),
                  ("res_trafo3w", "loading_percent"), ("res_bus", "vm_pu")]
        with patched(ow_mod, v_to_i_s=lambda net_, vm, va: (None, s_abs, i_abs)):
            ow.get_batch_outputs(net, dict(batch_read=list(wanted)))
        ppc = {"bus": ctx.obj(net._ppc["bus"]), "branch": ctx.obj(net._ppc["branch"].real)}
        for t in ("res_line", "res_trafo", "res_trafo3w"):
            net[t] = net[t].astype(object if ctx.symbolic else float)
        rb._get_line_results(net, ppc, i_ft)
        rb._get_trafo_results(net, ppc, s_ft, i_ft)
        rb._get_trafo3w_results(net, ppc, s_ft, i_ft)
        ctx.true("every_requested_variable_is_recorded", sorted(ow.output_list) == sorted(wanted))
        for table, var in wanted:
            name = f"{table}.{var}"
            ctx.true(f"{name}/recorded", name in ow.output)
            if name not in ow.output or table == "res_bus":
                continue
            frame = ow.output[name]
            ctx.true(f"{name}/one_column_per_element", frame.shape == (1, len(net[table])))
            for r in range(min(frame.shape[1], len(net[table]))):
                ctx.eq(f"{name}/batch_value_equals_step_value[{r}]", frame.values[0, r], net[table][var].values[r])
    return fn


def make_nonconvergence(only_v):
    """a recycled step whose Newton iteration does not converge (contract stub: success = False) must be reported to the caller like a fresh
    power flow reports it (LoadflowNotConverged) - also in the mode that only stores voltages for batch reading"""
    def fn(ctx):
        from pandapower.auxiliary import LoadflowNotConverged
        net0, recycle = _net("load", "p_mw", True)
        x1 = ctx.var("x_new", 0.1, 5.)
        pf = ctx.load("pandapower.powerflow")
        net = copy.deepcopy(net0)
        _symbolic_state(ctx, net)
        net.load = net.load.copy()
        net.load["p_mw"] = net.load["p_mw"].astype(object if ctx.symbolic else float)
        net.load.at[0, "p_mw"] = x1
        net._options["only_v_results"] = only_v

        def no_convergence(ppci, options):
            ppci["success"], ppci["iterations"], ppci["et"] = False, 10, 0.0
            return ppci
        raised = None
        with patched(pf, _run_newton_raphson_pf=no_convergence):
            try:
                pf._recycled_powerflow(net, recycle=dict(recycle))
            except LoadflowNotConverged:
                raised = "LoadflowNotConverged"
        ctx.true("non_convergence_is_reported_to_the_time_series", raised == "LoadflowNotConverged")
    return fn


def instances(tier):
    out = []
    for tl in ("current", "power"):
        out.append(Inst(f"batch_values_{tl}", make_batch(tl), nvars=60, samples=2, max_paths=3000,
                        meta=dict(part="B", trafo_loading=tl), raises=(UserWarning,)))
    for ov in (True, False):
        out.append(Inst(f"recycled_non_convergence_only_v_results_{int(ov)}", make_nonconvergence(ov), nvars=10, samples=2, raises=(UserWarning,),
                        meta=dict(part="A", scenario="Newton does not converge in a recycled step", only_v_results=ov)))
    for kind in ("lines_only", "trafo_only"):
        out.append(Inst(f"batch_outputs_{kind}", make_batch_outputs(kind), nvars=30, samples=2, meta=dict(part="B", net=kind), raises=(UserWarning,)))
    for kind in ("all_supplied", "unsupplied", "bus_out_of_service"):
        out.append(Inst(f"batch_flows_{kind}", make_batch_flows(kind), nvars=30, samples=2, meta=dict(part="B", flows=kind), raises=(UserWarning,)))
    for el, var in AC_PAIRS:
        out.append(Inst(f"ac_{el}.{var}", make_ac(el, var), nvars=14, samples=2, meta=dict(run="runpp", element=el, variable=var),
                        raises=(UserWarning,)))
    for el, var in DC_PAIRS:
        out.append(Inst(f"dc_{el}.{var}", make_dc(el, var), nvars=14, samples=2, meta=dict(run="rundcpp", element=el, variable=var),
                        raises=(UserWarning,)))
    for el, var in [("trafo", "tap_pos"), ("line", "length_km"), ("load", "p_mw")] + ([("trafo", "vk_percent"), ("line", "r_ohm_per_km"), ("gen", "vm_pu")] if tier == "thorough" else []):
        out.append(Inst(f"ac_open_switches_{el}.{var}", make_ac(el, var, "open_switches"), nvars=14, samples=2,
                        meta=dict(run="runpp", element=el, variable=var, topology="open line switch, open trafo switch, line at an out of service bus"), raises=(UserWarning,)))
    # a three-winding transformer next to a two-winding one: profiles on either must rebuild the rows of both kinds that depend on them
    for el, var in [("trafo3w", "tap_pos"), ("trafo", "tap_pos")] + ([("trafo3w", "vk_hv_percent"), ("trafo3w", "shift_mv_degree")] if tier == "thorough" else []):
        out.append(Inst(f"ac_with_trafo3w_{el}.{var}", make_ac(el, var, "with_trafo3w"), nvars=14, samples=2,
                        meta=dict(run="runpp", element=el, variable=var, topology="two-winding and three-winding transformer"), raises=(UserWarning,)))
    out.append(Inst("dc_with_trafo3w_trafo3w.tap_pos", make_dc("trafo3w", "tap_pos", "with_trafo3w"), nvars=14, samples=2,
                    meta=dict(run="rundcpp", element="trafo3w", variable="tap_pos", topology="two-winding and three-winding transformer"), raises=(UserWarning,)))
    for el, var in [("trafo", "tap_pos"), ("line", "x_ohm_per_km")]:
        out.append(Inst(f"dc_open_switches_{el}.{var}", make_dc(el, var, "open_switches"), nvars=14, samples=2,
                        meta=dict(run="rundcpp", element=el, variable=var, topology="open line switch, open trafo switch, line at an out of service bus"), raises=(UserWarning,)))
    return out


INSTANCE_TIMEOUT_S = {"quick": 900, "thorough": 3000}
LEVEL_TEXT = ("Non-interference model checking of the recycling shortcut: with one ConstControl-controlled column symbolic, the real "
              "_recycled_powerflow (flags from the real set_recycle) and a fresh complete conversion are both run up to the point where the "
              "numerical solver is entered, and z3 shows that they hand the solver the same Ybus/Sbus/V0 (AC) resp. Bbus/Pbus/Va0 (DC) for "
              "every new value; a stale entry is a counterexample.")
LEVEL_NOTE = ("Trusted: Newton / the DC linear solve are deterministic functions of the captured system; result extraction is the same code "
              "in both runs. Bounds: one controlled column at a time, 3-bus net with one element of each kind.")


def extra_checks(tier, seed):
    """(B) batch-reading eligibility, decided on the real public API (concrete twin, not a solver claim): every variable that
    _check_output_writer_recyclability hands to batch reading must be recorded, with the values of step-wise fresh power flows."""
    import warnings
    warnings.filterwarnings("ignore")
    from pandapower.control import ConstControl
    from pandapower.timeseries import DFData, OutputWriter, run_timeseries
    out = dict(inconclusive=[], violations=[], samples=[], validated=0)

    def net_():
        net = pp.create_empty_network()
        b0 = pp.create_bus(net, 110.)
        b1 = pp.create_bus(net, 20.)
        b2 = pp.create_bus(net, 20.)
        pp.create_ext_grid(net, b0)
        pp.create_transformer_from_parameters(net, b0, b1, 40, 110, 20, 0.3, 12, 20, 0.05)
        pp.create_line_from_parameters(net, b1, b2, 1., 0.1, 0.1, 10, 1.)
        pp.create_load(net, b2, 1., 0.5)
        return net
    vals = [1., 2.5]
    fresh = []
    for v in vals:
        n2 = net_()
        n2.load.at[0, "p_mw"] = v
        pp.runpp(n2)
        fresh.append(n2)
    cols = {t: [c for c in fresh[0][t].columns] for t in ("res_bus", "res_line", "res_trafo")}
    combos = [[(t, c)] for t in cols for c in cols[t]]
    combos += [[("res_line", "loading_percent"), ("res_line", "i_ka")], [("res_trafo", "loading_percent"), ("res_trafo", "i_hv_ka")],
               [("res_bus", "vm_pu"), ("res_bus", "va_degree"), ("res_line", "p_from_mw")]]
    if tier == "quick":
        keep = {"vm_pu", "p_mw", "loading_percent", "p_from_mw", "i_ka", "q_hv_mvar", "pl_mw", "va_degree"}
        combos = [c for c in combos if len(c) > 1 or c[0][1] in keep]
    for logs in combos:
        sig = "C12/batch_read/" + "+".join(f"{t}.{c}" for t, c in logs)
        try:
            net = net_()
            ConstControl(net, "load", "p_mw", element_index=[0], profile_name="p", data_source=DFData(pd.DataFrame({"p": vals})))
            ow = OutputWriter(net, time_steps=range(len(vals)), output_path=None, log_variables=list(logs))
            run_timeseries(net, time_steps=range(len(vals)), verbose=False)
            bad = None
            for t, c in logs:
                got = ow.output[f"{t}.{c}"].values
                want = np.array([f[t][c].values for f in fresh])
                if got.shape != want.shape or not np.allclose(got.astype(float), want.astype(float), atol=1e-6, equal_nan=True):
                    bad = dict(variable=f"{t}.{c}", recorded=np.asarray(got).tolist(), fresh=want.tolist())
            out["validated"] += 1
            if bad:
                out["violations"].append(dict(signature=sig, replay=dict(kind="external", reproduced=True, observed=bad, log_variables=logs)))
        except Exception as e:
            out["violations"].append(dict(signature=sig, replay=dict(kind="external", reproduced=True, log_variables=logs,
                                                                     observed=f"run_timeseries raised {type(e).__name__}: {e}")))
    out["samples"].append(dict(batch_read_twin=f"{len(combos)} OutputWriter selections through run_timeseries vs step-wise runpp"))
    return out
