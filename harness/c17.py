"""C17 OPF minimises exactly the user-defined cost functions (translation of costs into the solver's objective)."""
import copy

import numpy as np
import pandas as pd

from .common import pp, Inst, setcol

PROPERTY = "C17"
LEVEL = "model_checking"
FUNCTIONS = [("pandapower.opf.make_objective", "_make_objective"), ("pandapower.opf.make_objective", "_init_gencost"),
             ("pandapower.opf.make_objective", "_fill_gencost_poly"), ("pandapower.opf.make_objective", "_fill_gencost_pwl"),
             ("pandapower.opf.make_objective", "costs_from_areas"), ("pandapower.opf.make_objective", "_add_linear_costs_as_pwl_cost"),
             ("pandapower.opf.make_objective", "_map_costs_to_gen"), ("pandapower.opf.make_objective", "_get_gen_index"),
             ("pandapower.pypower.totcost", "totcost"), ("pandapower.pypower.polycost", "polycost")]
STUBS = ["the interior point solver is not run: its objective value is, by construction, sum(totcost(gencost, x)) at the returned x "
         "(that sum is what net.res_cost reports); x (Pg, Qg in MW/Mvar) is symbolic"]
ASSUMPTIONS = ["cost coefficients symbolic in [-10,10]; generator-space powers symbolic in [-5,5]; piecewise-linear breakpoints symbolic, "
               "strictly increasing, slopes symbolic; element power = sign * generator power with the sign convention of the result tables "
               "(load, storage, dcline p_from: -1)",
               "a piecewise-linear cost is the function through (p1, p1*c1) with the given slopes, extended linearly beyond its end points "
               "(pypower semantics for gen-like elements; the docstring's 'constant part can be neglected')"]
OUTSIDE = ["optimality of the returned point (PIPS, compiled linear algebra)", "the independent DC-OPF optimum (replay-side oracle only)",
           "PowerModels back-end"]
BOUNDS = {"quick": "one cost entry on each of ext_grid/gen/sgen/load/storage/dcline x {poly p, poly p+q, pwl 1-2 segments, mixed}",
          "thorough": "plus pwl 3 segments, pwl on q, two cost entries at once"}

ETS = ["ext_grid", "gen", "sgen", "load", "storage", "dcline"]
SIGN = {"ext_grid": 1, "gen": 1, "sgen": 1, "load": -1, "storage": -1, "dcline": -1}
_NET = {}


def _net(with_dcline):
    if with_dcline in _NET:
        return _NET[with_dcline]
    net = pp.create_empty_network()
    b0 = pp.create_bus(net, 20., min_vm_pu=0.9, max_vm_pu=1.1)
    b1 = pp.create_bus(net, 20., min_vm_pu=0.9, max_vm_pu=1.1)
    b2 = pp.create_bus(net, 20., min_vm_pu=0.9, max_vm_pu=1.1)
    pp.create_ext_grid(net, b0, min_p_mw=-10, max_p_mw=10, min_q_mvar=-10, max_q_mvar=10)
    pp.create_line_from_parameters(net, b0, b1, 1., 0.1, 0.1, 10, 1., max_loading_percent=100)
    pp.create_load(net, b1, 1., 0.5, controllable=True, min_p_mw=0, max_p_mw=2, min_q_mvar=0, max_q_mvar=1)
    pp.create_load(net, b2, 0.2, 0.1)
    pp.create_sgen(net, b1, 0.3, 0.1, controllable=True, min_p_mw=0, max_p_mw=1, min_q_mvar=-1, max_q_mvar=1)
    pp.create_gen(net, b1, 0.5, controllable=True, min_p_mw=0, max_p_mw=1, min_q_mvar=-1, max_q_mvar=1)
    pp.create_storage(net, b1, 0.2, 1., controllable=True, min_p_mw=-1, max_p_mw=1, min_q_mvar=-1, max_q_mvar=1)
    if with_dcline:
        pp.create_dcline(net, b1, b2, 0.3, 0.1, 1., 1., 1., max_p_mw=1., min_q_from_mvar=-1, max_q_from_mvar=1, min_q_to_mvar=-1, max_q_to_mvar=1)
    else:
        pp.create_line_from_parameters(net, b1, b2, 1., 0.1, 0.1, 10, 1., max_loading_percent=100)
    pp.create_poly_cost(net, 0, "ext_grid", cp1_eur_per_mw=1.)
    pp.runopp(net, numba=False)
    net.poly_cost = net.poly_cost.iloc[0:0]
    if with_dcline:
        import pandapower.auxiliary as aux
        aux._add_auxiliary_elements(net)       # the state in which _make_objective runs inside runopp
    _NET[with_dcline] = net
    return net


def _pwl_user(ctx, points, p):
    """the user's piecewise-linear function at p (symbolic: forks on the segment)"""
    lo0, up0, s0 = points[0]
    val = lo0 * s0
    if bool(p <= lo0):
        return val + (p - lo0) * s0
    for k, (lo, up, s) in enumerate(points):
        last = k == len(points) - 1
        if last or bool(p <= up):
            return val + (p - lo) * s
        val = val + (up - lo) * s
    raise AssertionError


def make_fn(entries):
    """entries: list of (kind, et, variant) with kind in {poly, pwl}"""
    with_dc = any(e[1] == "dcline" for e in entries)

    def fn(ctx):
        mo = ctx.load("pandapower.opf.make_objective")
        tc = ctx.load("pandapower.pypower.totcost")
        net = copy.deepcopy(_net(with_dc))
        ppci = {"gen": ctx.obj(net._ppc_opf["gen"])}
        ngen = len(net._ppc_opf["gen"])
        Pg = ctx.array([ctx.var(f"Pg{i}", -5., 5.) for i in range(ngen)])
        Qg = ctx.array([ctx.var(f"Qg{i}", -5., 5.) for i in range(ngen)])
        user_total = 0.0
        poly_rows, pwl_rows = [], []
        for n, (kind, et, variant) in enumerate(entries):
            gidx = mo._get_gen_index(net, et, 0)
            sign = SIGN[et]
            p_el = sign * Pg[gidx]
            q_el = (-1 if et in ("load", "storage", "dcline") else 1) * Qg[gidx]    # res_dcline.q_from_mvar = -q of the from-side generator
            if kind == "poly":
                c = {k: 0.0 for k in ("cp0_eur", "cp1_eur_per_mw", "cp2_eur_per_mw2", "cq0_eur", "cq1_eur_per_mvar", "cq2_eur_per_mvar2")}
                use = {"lin": ["cp0_eur", "cp1_eur_per_mw"], "quad": ["cp0_eur", "cp1_eur_per_mw", "cp2_eur_per_mw2"],
                       "quad_q": list(c), "lin_q": ["cp0_eur", "cp1_eur_per_mw", "cq0_eur", "cq1_eur_per_mvar"],
                       "lin_nc0": ["cp1_eur_per_mw"]}[variant]
                for k in use:
                    c[k] = ctx.var(f"{k}_{n}", -10., 10.)
                poly_rows.append(dict(element=0, et=et, **c))
                user_total = user_total + c["cp2_eur_per_mw2"] * p_el * p_el + c["cp1_eur_per_mw"] * p_el + c["cp0_eur"] \
                    + c["cq2_eur_per_mvar2"] * q_el * q_el + c["cq1_eur_per_mvar"] * q_el + c["cq0_eur"]
            else:
                nseg = int(variant[0])
                ptype = "q" if variant.endswith("q") else "p"
                xs = [ctx.var(f"x{n}_{k}", -6., 6.) for k in range(nseg + 1)]
                for k in range(nseg):
                    ctx.assume(xs[k] + 0.01 <= xs[k + 1])
                slopes = [ctx.var(f"s{n}_{k}", -10., 10.) for k in range(nseg)]
                points = [[xs[k], xs[k + 1], slopes[k]] for k in range(nseg)]
                pwl_rows.append(dict(power_type=ptype, element=0, et=et, points=points))
                user_total = user_total + _pwl_user(ctx, points, p_el if ptype == "p" else q_el)
        net.poly_cost = pd.DataFrame(poly_rows, columns=list(net.poly_cost.columns)).astype(object if ctx.symbolic else float, errors="ignore") \
            if poly_rows else net.poly_cost.iloc[0:0]
        if poly_rows:
            net.poly_cost["element"] = net.poly_cost["element"].astype(int)
            net.poly_cost["et"] = [r["et"] for r in poly_rows]
        net.pwl_cost = pd.DataFrame(pwl_rows, columns=["power_type", "element", "et", "points"]) if pwl_rows else net.pwl_cost.iloc[0:0]
        mo._make_objective(ppci, net)
        gc = ppci["gencost"]
        x = np.concatenate([Pg, Qg]) if len(gc) == 2 * ngen else Pg
        tot = tc.totcost(gc, x)
        total = 0.0
        for t in tot:
            total = total + t
        if poly_rows and pwl_rows:
            # mixed mode: the linear poly cost is rewritten as a 1-segment pwl; split so that the constant term is a separate obligation
            consts = 0.0
            for r in poly_rows:
                consts = consts + r["cp0_eur"]
            ctx.eq("objective_equals_user_cost_up_to_poly_constants", total, user_total - consts)
            ctx.eq("mixed_mode_includes_poly_constant_term", total, user_total)
        else:
            ctx.eq("objective_equals_user_cost", total, user_total)
    return fn


def _public_replay_poly(et):
    def rp(model, claim):
        """runopp on a net with the model's coefficients: res_cost vs the user's polynomial at the element's own result"""
        from fractions import Fraction
        net = copy.deepcopy(_net(et == "dcline"))
        if et == "dcline":
            import pandapower.auxiliary as aux
            aux._clean_up(net, res=False)
        c = {k.rsplit("_", 1)[0]: float(Fraction(v)) for k, v in model.items() if k.startswith("c")}
        pp.create_poly_cost(net, 0, et, **{k: v for k, v in c.items()})
        pp.create_poly_cost(net, 0, "ext_grid" if et != "ext_grid" else "gen", cp1_eur_per_mw=1.0)
        try:
            pp.runopp(net, numba=False)
        except Exception as e:
            return f"runopp did not converge: {type(e).__name__}"
        tab = "res_" + et
        p = net[tab].p_mw.at[0] if et != "dcline" else net.res_dcline.p_from_mw.at[0]
        q = net[tab].q_mvar.at[0] if et != "dcline" else net.res_dcline.q_from_mvar.at[0]
        user = c.get("cp2_eur_per_mw2", 0) * p * p + c.get("cp1_eur_per_mw", 0) * p + c.get("cp0_eur", 0) \
            + c.get("cq2_eur_per_mvar2", 0) * q * q + c.get("cq1_eur_per_mvar", 0) * q + c.get("cq0_eur", 0)
        other = net.res_ext_grid.p_mw.at[0] if et != "ext_grid" else net.res_gen.p_mw.at[0]
        return dict(res_cost=float(net.res_cost), user_cost=float(user + other), differs=bool(abs(net.res_cost - user - other) > 1e-4))
    return rp


class _StopQP(Exception):
    pass


def make_dc_objective(order):
    """DC OPF: the quadratic program the real dcopf_solver hands to the QP solver has, for every dispatch Pg and every value of the piecewise
    linear helper variables y, the objective sum_poly(c2 p^2 + c1 p + c0) + sum(y) - whatever the order of polynomial and piecewise linear
    rows in gencost is"""
    def fn(ctx):
        import inspect
        ds = ctx.load("pandapower.pypower.dcopf_solver")
        from pandapower.pypower.idx_cost import MODEL, NCOST, COST, POLYNOMIAL, PW_LINEAR
        from pandapower.pypower.idx_bus import bus_cols, BUS_TYPE, VA
        from pandapower.pypower.idx_gen import gen_cols
        from pandapower.pypower.idx_brch import branch_cols
        from .common import patched
        from symx.shim import DMat
        nb, ng = 2, len(order)
        base = ctx.var("baseMVA", 1., 100.)
        gencost = ctx.obj(np.zeros((ng, COST + 6)))
        coef = {}
        for r, kind in enumerate(order):
            if kind == "pwl":
                gencost[r, MODEL], gencost[r, NCOST] = PW_LINEAR, 3
                gencost[r, COST:COST + 6] = [0., 0., 1., 10., 2., 30.]
            elif kind == "lin":
                coef[r] = (0.0, ctx.var(f"c1_{r}", -10., 10.), ctx.var(f"c0_{r}", -10., 10.))
                gencost[r, MODEL], gencost[r, NCOST] = POLYNOMIAL, 2
                gencost[r, COST], gencost[r, COST + 1] = coef[r][1], coef[r][2]
            else:
                coef[r] = (ctx.var(f"c2_{r}", 0., 5.), ctx.var(f"c1_{r}", -10., 10.), ctx.var(f"c0_{r}", -10., 10.))
                gencost[r, MODEL], gencost[r, NCOST] = POLYNOMIAL, 3
                gencost[r, COST], gencost[r, COST + 1], gencost[r, COST + 2] = coef[r]
        ny = sum(1 for k in order if k == "pwl")
        nxyz = nb + ng + ny
        bus = np.zeros((nb, bus_cols)); bus[0, BUS_TYPE] = 3; bus[1, BUS_TYPE] = 1
        ppc = {"baseMVA": base, "bus": bus, "gen": np.zeros((ng, gen_cols)), "branch": np.zeros((1, branch_cols)), "gencost": gencost}
        mk = (lambda shape: DMat(np.zeros(shape))) if ctx.symbolic else (lambda shape: __import__("scipy.sparse").sparse.csr_matrix(shape))
        cap = {}

        class OM:
            def get_ppc(self): return ppc
            def get_cost_params(self): return {"N": mk((0, nxyz)), "H": None, "Cw": np.array([]), "dd": np.zeros((0, 1)), "rh": np.zeros((0, 1)), "kk": np.zeros((0, 1)), "mm": np.zeros((0, 1))}
            def userdata(self, name): return None
            def get_idx(self):
                vv = {"i1": {"Va": 0, "Pg": nb, "y": nb + ng}, "iN": {"Va": nb, "Pg": nb + ng, "y": nxyz}}
                return vv, {}, None, None
            def getN(self, what, name=None): return ny if name == "y" else nxyz
            def linear_constraints(self): return None, np.array([]), np.array([])
            def getv(self): return np.zeros(nxyz), np.full(nxyz, -1e3), np.full(nxyz, 1e3)

        def qps(HH, CC, A, l, u, xmin, xmax, x0, opt):
            fr = inspect.currentframe().f_back
            cap.update(HH=HH, CC=CC, C0=fr.f_locals["C0"])
            raise _StopQP()
        ppopt = {"VERBOSE": 0, "OPF_ALG_DC": 200, "PDIPM_FEASTOL": 0, "PDIPM_GRADTOL": 1e-6, "PDIPM_COMPTOL": 1e-6, "PDIPM_COSTTOL": 1e-6,
                 "PDIPM_MAX_IT": 150, "SCPDIPM_RED_IT": 20, "OPF_VIOLATION": 5e-6}
        with patched(ds, qps_pypower=qps):
            try:
                ds.dcopf_solver(OM(), ppopt)
            except _StopQP:
                pass
        ctx.true("quadratic_program_handed_to_the_solver", "HH" in cap)
        if "HH" not in cap:
            return
        x = [0.0] * nb + [ctx.var(f"Pg{g}", -5., 5.) for g in range(ng)] + [ctx.var(f"y{k}", -50., 50.) for k in range(ny)]
        HH = cap["HH"].toarray() if hasattr(cap["HH"], "toarray") else np.asarray(cap["HH"])
        CC = np.asarray(cap["CC"]).ravel()
        obj = cap["C0"]
        for i in range(nxyz):
            obj = obj + CC[i] * x[i]
            for j in range(nxyz):
                obj = obj + 0.5 * HH[i, j] * x[i] * x[j]
        want = 0.0
        for r, kind in enumerate(order):
            if kind != "pwl":
                pmw = x[nb + r] * base
                c2, c1, c0 = coef[r]
                want = want + c2 * pmw * pmw + c1 * pmw + c0
        for k in range(ny):
            want = want + x[nb + ng + k]
        ctx.eq("objective_is_the_sum_of_the_users_polynomial_costs_plus_the_pwl_variables", obj, want)
    return fn


def _net_oos():
    """two gens, the one with the lower index out of service; both carry a cost entry"""
    if "oos" not in _NET:
        net = pp.create_empty_network()
        b0, b1, b2 = (pp.create_bus(net, 20., min_vm_pu=0.9, max_vm_pu=1.1) for _ in range(3))
        pp.create_ext_grid(net, b0, min_p_mw=-10, max_p_mw=10, min_q_mvar=-10, max_q_mvar=10)
        pp.create_line_from_parameters(net, b0, b1, 1., 0.1, 0.1, 10, 1., max_loading_percent=100)
        pp.create_line_from_parameters(net, b1, b2, 1., 0.1, 0.1, 10, 1., max_loading_percent=100)
        pp.create_gen(net, b1, 0.5, controllable=True, min_p_mw=0, max_p_mw=1, min_q_mvar=-1, max_q_mvar=1, in_service=False)
        pp.create_gen(net, b2, 0.5, controllable=True, min_p_mw=0, max_p_mw=1, min_q_mvar=-1, max_q_mvar=1)
        pp.create_load(net, b2, 1., 0.3)
        pp.create_poly_cost(net, 0, "ext_grid", cp1_eur_per_mw=1.)
        pp.runopp(net, numba=False)
        net.poly_cost = net.poly_cost.iloc[0:0]
        _NET["oos"] = net
    return _NET["oos"]


def make_out_of_service(first):
    """a cost entry of an out-of-service element contributes nothing and does not touch the cost of any other element, in whatever order the
    entries stand in net.poly_cost"""
    def fn(ctx):
        mo = ctx.load("pandapower.opf.make_objective")
        tc = ctx.load("pandapower.pypower.totcost")
        net = copy.deepcopy(_net_oos())
        ppci = {"gen": ctx.obj(net._ppc_opf["gen"])}
        ngen = len(net._ppc_opf["gen"])
        Pg = ctx.array([ctx.var(f"Pg{i}", -5., 5.) for i in range(ngen)])
        c = {g: {"cp1_eur_per_mw": ctx.var(f"cp1_gen{g}", -10., 10.), "cp0_eur": ctx.var(f"cp0_gen{g}", -10., 10.)} for g in (0, 1)}
        ceg = {"cp1_eur_per_mw": ctx.var("cp1_ext_grid", -10., 10.), "cp0_eur": ctx.var("cp0_ext_grid", -10., 10.)}
        rows = [dict(element=g, et="gen", cp2_eur_per_mw2=0., cq0_eur=0., cq1_eur_per_mvar=0., cq2_eur_per_mvar2=0., **c[g]) for g in ((0, 1) if first == "out_of_service_first" else (1, 0))]
        rows.append(dict(element=0, et="ext_grid", cp2_eur_per_mw2=0., cq0_eur=0., cq1_eur_per_mvar=0., cq2_eur_per_mvar2=0., **ceg))
        net.poly_cost = pd.DataFrame(rows, columns=list(net.poly_cost.columns)).astype(object if ctx.symbolic else float, errors="ignore")
        net.poly_cost["element"] = net.poly_cost["element"].astype(int)
        net.poly_cost["et"] = [r["et"] for r in rows]
        net.pwl_cost = net.pwl_cost.iloc[0:0]
        mo._make_objective(ppci, net)
        tot = tc.totcost(ppci["gencost"], Pg)
        total = 0.0
        for t in tot:
            total = total + t
        g1, geg = mo._get_gen_index(net, "gen", 1), mo._get_gen_index(net, "ext_grid", 0)
        ctx.true("out_of_service_element_has_no_generator_row", mo._get_gen_index(net, "gen", 0) is None)
        want = c[1]["cp1_eur_per_mw"] * Pg[g1] + c[1]["cp0_eur"] + ceg["cp1_eur_per_mw"] * Pg[geg] + ceg["cp0_eur"]
        ctx.eq("objective_is_the_cost_of_the_elements_in_service", total, want)
    return fn


def instances(tier):
    out = []
    for et in ETS:
        for v in ["lin", "quad", "quad_q"] + (["lin_q"] if tier == "thorough" else []):
            out.append(Inst(f"poly_{v}_{et}", make_fn([("poly", et, v)]), nvars=24, samples=2, meta=dict(kind="poly", et=et, variant=v),
                            public_replay=_public_replay_poly(et)))
        for v in ["1p", "2p"] + (["3p", "2q"] if tier == "thorough" else []):
            out.append(Inst(f"pwl_{v}_{et}", make_fn([("pwl", et, v)]), nvars=26, samples=2, max_paths=20000 if v == "2q" else 2000,
                            meta=dict(kind="pwl", et=et, variant=v)))
    for a, b in [("gen", "load"), ("sgen", "ext_grid"), ("storage", "gen")]:
        out.append(Inst(f"mixed_pwl_{a}_poly_{b}", make_fn([("pwl", a, "2p"), ("poly", b, "lin")]), nvars=26, samples=2,
                        meta=dict(kind="mixed", pwl=a, poly=b)))
    for first in ("out_of_service_first", "out_of_service_last"):
        out.append(Inst(f"cost_of_out_of_service_gen_{first}", make_out_of_service(first), nvars=16, samples=2, meta=dict(kind="poly", scenario=first)))
    for nm, order in (("poly_rows_first", ("lin", "quad", "pwl")), ("pwl_row_first", ("pwl", "lin", "quad")), ("pwl_between", ("quad", "pwl", "lin"))):
        out.append(Inst(f"dc_opf_objective_{nm}", make_dc_objective(order), nvars=20, samples=2, meta=dict(part="DC OPF objective (dcopf_solver)", gencost_rows=list(order))))
    if tier == "thorough":
        for a, b in [("gen", "load"), ("load", "storage"), ("sgen", "dcline")]:
            out.append(Inst(f"two_poly_{a}_{b}", make_fn([("poly", a, "quad"), ("poly", b, "quad")]), nvars=28, samples=2,
                            meta=dict(kind="two_poly", ets=[a, b])))
    return out


LEVEL_TEXT = ("Bounded model checking of the cost translation: the real _make_objective family fills gencost from cost tables with symbolic "
              "coefficients, the real totcost/polycost evaluate it at a symbolic solver point, and z3 decides that the sum equals the user's "
              "polynomial / piecewise-linear function at the element's own result power, for all coefficients, breakpoints and powers.")
LEVEL_NOTE = ("Trusted: net.res_cost = ppc['obj'] = sum(totcost(gencost, x)) at the solver's x (pypower opf_costfcn); the sign convention of "
              "the result tables; z3. The optimiser itself is outside. Bounds: <= 2 cost entries, <= 3 pwl segments.")
