"""C34 Explicit power flow arguments take precedence over stored user options."""
import copy
import inspect

import numpy as np

from .common import pp, Inst, patched

PROPERTY = "C34"
LEVEL = "model_checking"
FUNCTIONS = [("pandapower.run", "runpp"), ("pandapower.pf.runpp_3ph", "runpp_3ph"), ("pandapower.run", "_passed_runpp_parameters"),
             ("pandapower.auxiliary", "_init_runpp_options"), ("pandapower.auxiliary", "_add_ppc_options"),
             ("pandapower.auxiliary", "_add_pf_options")]
STUBS = ["pandapower.run._powerflow -> no-op (the prologue, locals(), _passed_runpp_parameters and _init_runpp_options are real)"]
ASSUMPTIONS = ["numeric parameters (tolerance_mva, max_iteration, delta_q, switch_rx_ratio) are symbolic reals in (0, 100]; "
               "string/bool parameters are chosen by a symbolic selector whose branches the solver enumerates",
               "the value that counts is net._options[<option key>] at the point where _powerflow is entered"]
OUTSIDE = ["init_vm_pu / init_va_degree passed directly (init itself: instance init_translation)", "recycle, tdpf*, run_control, lightsim2grid",
           "rundcpp/runopp (the property names runpp; runpp_3ph shares the helper _passed_runpp_parameters and is included for 8 parameters)"]
BOUNDS = {"quick": "one parameter at a time (15 parameters) + 3 two-parameter combinations + 2-call history",
          "thorough": "same + all unordered pairs of the 15 parameters"}

# parameter -> (option key, kind, domain)
NUM = {"tolerance_mva": "tolerance_mva", "max_iteration": "max_iteration", "delta_q": "delta", "switch_rx_ratio": "switch_rx_ratio"}
DISC = {
    "algorithm": ("algorithm", ["nr", "iwamoto_nr", "bfsw", "gs", "fdbx", "fdxb"]),
    "trafo_model": ("trafo_model", ["t", "pi"]),
    "trafo_loading": ("trafo_loading", ["current", "power"]),
    "calculate_voltage_angles": ("calculate_voltage_angles", [True, False]),
    "enforce_q_lims": ("enforce_q_lims", [False, True]),
    "check_connectivity": ("check_connectivity", [True, False]),
    "voltage_depend_loads": ("voltage_depend_loads", [True, False]),
    "consider_line_temperature": ("consider_line_temperature", [False, True]),
    "distributed_slack": ("distributed_slack", [False, True]),
    "neglect_open_switch_branches": ("neglect_open_switch_branches", [False, True]),
    "trafo3w_losses": ("trafo3w_losses", ["hv", "mv", "lv", "star"]),
}
_NET = None


def _net():
    global _NET
    if _NET is None:
        net = pp.create_empty_network()
        b0 = pp.create_bus(net, 20.)
        b1 = pp.create_bus(net, 20.)
        pp.create_ext_grid(net, b0)
        pp.create_line_from_parameters(net, b0, b1, 1., 0.1, 0.1, 10, 1.)
        pp.create_load(net, b1, 1., 0.5, const_z_p_percent=10., const_i_p_percent=10., const_z_q_percent=10., const_i_q_percent=10.)
        net.line["temperature_degree_celsius"] = 20.
        net.line["alpha"] = 0.004
        _NET = net
    return copy.deepcopy(_NET)


def _defaults():
    import pandapower.run as prun
    sig = inspect.signature(prun.runpp)
    return {k: p.default for k, p in sig.parameters.items() if p.default is not inspect.Parameter.empty}


def _select(ctx, name, domain):
    """symbolic selector: the solver enumerates the branches"""
    if not ctx.symbolic:
        k = int(float(ctx.var(name, 0., float(len(domain))))) % len(domain) if len(domain) > 1 else 0
        k = min(k, len(domain) - 1)
        return domain[k]
    s = ctx.var(name, 0., float(len(domain)))
    for k in range(len(domain) - 1):
        if bool(s < k + 1):
            return domain[k]
    return domain[-1]


def _values(ctx, p, tag):
    if p in NUM:
        if p == "max_iteration":
            return ctx.var(f"{tag}_{p}", 1., 100.)
        return ctx.var(f"{tag}_{p}", 1e-12, 100.)
    return _select(ctx, f"{tag}_{p}", DISC[p][1])


def _okey(p):
    return NUM[p] if p in NUM else DISC[p][0]


def _same(ctx, name, got, want):
    if isinstance(want, (str, bool, np.bool_)) or isinstance(got, (str, bool, np.bool_)) or got is None:
        ctx.true(name, type(got) == type(want) and got == want)
    else:
        ctx.eq(name, got, want)


def make_fn(params, history=False):
    defaults = _defaults()

    def fn(ctx):
        prun = ctx.load("pandapower.run")
        net = _net()
        stored = {p: _values(ctx, p, "stored") for p in params}
        passed = {p: _values(ctx, p, "passed") for p in params}
        # a second stored option that is *not* passed must keep applying
        bystander = [b for b in ("trafo_model", "trafo_loading", "check_connectivity") if b not in params][0]
        stored_b = _select(ctx, f"stored_{bystander}", DISC[bystander][1])
        net.user_pf_options = dict(stored)
        net.user_pf_options[bystander] = stored_b
        with patched(prun, _powerflow=lambda net, **kw: None):
            if history:
                first = {p: _values(ctx, p, "first") for p in params}
                prun.runpp(net, **first)
            prun.runpp(net, **passed)
        opts = net._options
        for p in params:
            v = passed[p]
            dflt = defaults.get(p, None)
            is_default = (v == dflt) if not hasattr(v, "v") else None
            if p in NUM and ctx.symbolic and dflt is not None and not isinstance(dflt, str):
                # split on v == default so that a known finding can name exactly that case
                if bool(v == dflt):
                    _same(ctx, f"passed_equal_to_default_wins/{p}", opts[_okey(p)], v)
                else:
                    _same(ctx, f"passed_wins/{p}", opts[_okey(p)], v)
            elif p in NUM:
                tag = "passed_equal_to_default_wins" if (dflt is not None and not isinstance(dflt, str) and float(v) == float(dflt)) else "passed_wins"
                _same(ctx, f"{tag}/{p}", opts[_okey(p)], v)
            else:
                tag = "passed_equal_to_default_wins" if (p in defaults and is_default) else "passed_wins"
                _same(ctx, f"{tag}/{p}", opts[_okey(p)], v)
        _same(ctx, f"stored_applies_when_not_passed/{bystander}", opts[_okey(bystander)], stored_b)
    return fn

def make_init():
    """`init` has no option key of its own: it is translated into init_vm_pu / init_va_degree / init_results. A stored init must not change
    what an explicitly passed init is translated to: the options after runpp(net, init=passed) on a net with a stored init equal those on a
    net without one (explicit values other than the signature default "auto"; the default-equal case is the known finding of this property)"""
    def fn(ctx):
        prun = ctx.load("pandapower.run")
        kinds = ["dc", "flat", "results"]
        stored = _select(ctx, "stored_init", kinds + ["auto"])
        passed = _select(ctx, "passed_init", kinds)
        stored_b = _select(ctx, "stored_trafo_model", DISC["trafo_model"][1])
        a, b = _net(), _net()
        a.user_pf_options = {"init": stored, "trafo_model": stored_b}
        b.user_pf_options = {"trafo_model": stored_b}
        with patched(prun, _powerflow=lambda net, **kw: None):
            prun.runpp(a, init=passed)
            prun.runpp(b, init=passed)
        for k in ("init_vm_pu", "init_va_degree", "init_results"):
            ctx.true(f"passed_wins/init/{k}", k in a._options and k in b._options and type(a._options[k]) == type(b._options[k])
                     and a._options[k] == b._options[k])
        if passed in ("dc", "flat"):      # documented: "dc" starts from flat magnitudes and DC angles, "flat" from flat both
            ctx.true("passed_wins/init/documented_translation", a._options["init_vm_pu"] == "flat" and a._options["init_va_degree"] == passed)
        _same(ctx, "stored_applies_when_not_passed/trafo_model", a._options["trafo_model"], stored_b)
    return fn


class _Stop3(Exception):
    pass


P3_NUM = {"tolerance_mva": "tolerance_mva", "switch_rx_ratio": "switch_rx_ratio", "max_iteration": "max_iteration"}
P3_DISC = {"trafo_loading": ("trafo_loading", ["current", "power"]), "calculate_voltage_angles": ("calculate_voltage_angles", [True, False]),
           "enforce_q_lims": ("enforce_q_lims", [False, True]), "check_connectivity": ("check_connectivity", [True, False]),
           "v_debug": ("v_debug", [False, True])}


def make_3ph(p):
    """the same precedence rule through runpp_3ph, which shares _passed_runpp_parameters (its own named arguments included)"""
    defaults = _defaults()

    def fn(ctx):
        r3 = ctx.load("pandapower.pf.runpp_3ph")
        net = _net()
        dom = None if p in P3_NUM else P3_DISC[p][1]
        val = (lambda tag: ctx.var(f"{tag}_{p}", 1., 100.) if p == "max_iteration" else ctx.var(f"{tag}_{p}", 1e-12, 100.)) if dom is None \
            else (lambda tag: _select(ctx, f"{tag}_{p}", dom))
        stored, passed = val("stored"), val("passed")
        stored_b = _select(ctx, "stored_trafo_loading" if p != "trafo_loading" else "stored_check_connectivity",
                           P3_DISC["trafo_loading" if p != "trafo_loading" else "check_connectivity"][1])
        bystander = "trafo_loading" if p != "trafo_loading" else "check_connectivity"
        net.user_pf_options = {p: stored, bystander: stored_b}

        def stop(net_):
            raise _Stop3()
        with patched(r3, _check_bus_index_and_print_warning_if_high=stop):
            try:
                r3.runpp_3ph(net, **{p: passed})
            except _Stop3:
                pass
        opts = net._options
        okey = P3_NUM[p] if p in P3_NUM else P3_DISC[p][0]
        dflt = defaults.get(p, None)           # the helper compares with the defaults of runpp
        if hasattr(passed, "v"):
            is_default = bool(passed == dflt) if (dflt is not None and not isinstance(dflt, str)) else False
        else:
            is_default = (p in defaults) and (passed == dflt if not isinstance(passed, float) else (not isinstance(dflt, str) and dflt is not None and float(passed) == float(dflt)))
        tag = "passed_equal_to_default_wins" if is_default else "passed_wins"
        _same(ctx, f"{tag}/{p}", opts[okey], passed)
        _same(ctx, f"stored_applies_when_not_passed/{bystander}", opts[bystander], stored_b)
    return fn


def instances(tier):
    out = []
    plist = list(NUM) + list(DISC)
    for p in plist:
        out.append(Inst(f"one_{p}", make_fn([p]), nvars=8, meta=dict(parameters=[p]), samples=2))
    pairs = [("tolerance_mva", "algorithm"), ("max_iteration", "enforce_q_lims"), ("trafo_model", "trafo_loading")]
    if tier == "thorough":
        pairs = [(a, b) for i, a in enumerate(plist) for b in plist[i + 1:]]
    for a, b in pairs:
        out.append(Inst(f"pair_{a}_{b}", make_fn([a, b]), nvars=10, meta=dict(parameters=[a, b]), samples=1,
                        raises=(NotImplementedError, ValueError)))
    for p3 in list(P3_NUM) + list(P3_DISC):
        out.append(Inst(f"runpp_3ph_one_{p3}", make_3ph(p3), nvars=8, meta=dict(entry="runpp_3ph", parameters=[p3]), samples=2))
    out.append(Inst("init_translation", make_init(), nvars=8, meta=dict(parameters=["init"], derived=["init_vm_pu", "init_va_degree", "init_results"]), samples=3))
    out.append(Inst("history_tolerance_mva", make_fn(["tolerance_mva"], history=True), nvars=10, meta=dict(parameters=["tolerance_mva"], calls=2), samples=1))
    out.append(Inst("history_algorithm", make_fn(["algorithm"], history=True), nvars=10, meta=dict(parameters=["algorithm"], calls=2), samples=1))
    return out


LEVEL_TEXT = ("Bounded model checking of the real runpp prologue: runpp, _passed_runpp_parameters and _init_runpp_options are executed "
              "with symbolic stored and passed values; the solver decides, for all values, that net._options carries the passed value "
              "(and the stored one for parameters not passed). The solver's only counterexample on this tree is passed == default.")
LEVEL_NOTE = ("Trusted: _powerflow reads its settings from net._options only (stubbed to a no-op here); z3; reals for floats. "
              "Bounds: <= 2 parameters passed at once, 15 parameters with a one-to-one option key.")
