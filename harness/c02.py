"""C02 Power flow honours the documented element equivalent circuits (builders vs independent reference two-ports)."""
import copy
import math

import numpy as np
import pandas as pd

from .common import pp, Inst, setcol

PROPERTY = "C02"
LEVEL = "model_checking"
FUNCTIONS = [("pandapower.build_branch", "_calc_line_parameter"), ("pandapower.build_branch", "_calc_trafo_parameter"),
             ("pandapower.build_branch", "_calc_branch_values_from_trafo_df"), ("pandapower.build_branch", "_calc_tap_from_dataframe"),
             ("pandapower.build_branch", "_calc_nominal_ratio_from_dataframe"), ("pandapower.build_branch", "_calc_r_x_from_dataframe"),
             ("pandapower.build_branch", "_calc_y_from_dataframe"), ("pandapower.build_branch", "_wye_delta"),
             ("pandapower.build_branch", "_calc_impedance_parameter"), ("pandapower.build_branch", "_calc_impedance_parameters_from_dataframe"), ("pandapower.build_branch", "_calc_switch_parameter"),
             ("pandapower.pypower.makeYbus", "branch_vectors"), ("pandapower.results_branch", "_get_line_results"),
             ("pandapower.results_branch", "_get_trafo_results"), ("pandapower.pypower.makeBdc", "makeBdc"),
             ("pandapower.pypower.makeBdc", "calc_b_from_branch"), ("pandapower.pypower.makeBdc", "phase_shift_injection"), ("pandapower.pf.run_dc_pf", "_run_dc_pf"), ("pandapower.results_branch", "_get_branch_flows")]
STUBS = ["DC instance: the linear solve dcpf -> a symbolic angle vector (its contract is only needed for the non-slack balance, which is not claimed)", "sqrt of Pythagorean differences is made exact by rationalising input parametrisations (vkr = vk(1-m^2)/(1+m^2), pfe likewise): w.l.o.g.",
         "exp(j shift) -> rational circle parametrisation per angle atom; arctan as inverse on the abstract angle"]
ASSUMPTIONS = ["all element parameters positive within physical ranges; parallel, tap_pos symbolic reals (values between integers included)",
               "reference model: per-unit pi / T two-port written in the harness from doc/elements/{line,trafo,impedance}.rst on the bases "
               "Z_N = vn_bus_lv^2 / net.sn_mva; the transformer impedance refers to the (tap adjusted) transformer LV voltage as the builder documents",
               "real arithmetic"]
OUTSIDE = ["TDPF temperature dependence", "FACTS", "deprecated spline-characteristic path", "3W transformers: thorough tier", "tap2_* second tap changer"]
BOUNDS = {"quick": "result side: i_ka / loading_percent of line and trafo (trafo_loading current/power); one element per instance: line; trafo pi x {no tap, Ratio hv, Ratio lv, Ideal} + trafo t x {Ratio hv}; impedance; DC model of line+trafo",
          "thorough": "all of trafo_model {t,pi} x tap side x changer {None, Ratio, Symmetrical, Ideal} + 3W"}
_cache = {}


def _two_port(ctx, mY, row):
    Ytt, Yff, Yft, Ytf = mY.branch_vectors(row.reshape(1, -1), 1)
    return dict(Yff=Yff[0], Yft=Yft[0], Ytf=Ytf[0], Ytt=Ytt[0])


def _cx(ctx, re, im):
    from symx.core import SComplex
    return SComplex(re, im) if ctx.symbolic else complex(re, im)


# ------------------------------------------------------------------------------------------------- line
def _line_net():
    if "line" not in _cache:
        net = pp.create_empty_network()
        b0 = pp.create_bus(net, 20.)
        b1 = pp.create_bus(net, 20.)
        pp.create_ext_grid(net, b0)
        pp.create_line_from_parameters(net, b0, b1, 2., 0.1, 0.3, 10, 1., g_us_per_km=1., parallel=2, df=0.9)
        pp.create_load(net, b1, 1., 0.5)
        pp.runpp(net, numba=False, lightsim2grid=False)
        _cache["line"] = net
    return _cache["line"]


def make_line():
    def fn(ctx):
        from pandapower.pypower.idx_bus import BASE_KV
        bb = ctx.load("pandapower.build_branch")
        mY = ctx.load("pandapower.pypower.makeYbus")
        net = copy.deepcopy(_line_net())
        rng = {"r_ohm_per_km": (0.01, 1.), "x_ohm_per_km": (0.01, 1.), "c_nf_per_km": (1., 500.), "g_us_per_km": (0., 10.),
               "length_km": (0.1, 50.), "parallel": (1., 4.)}
        V = {c: ctx.var(c, *r) for c, r in rng.items()}
        for c in rng:
            setcol(ctx, net.line, c, [V[c]])
        sn, vn, fhz = ctx.var("sn_mva", 1., 1000.), ctx.var("vn_kv", 0.4, 400.), ctx.var("f_hz", 16., 60.)
        net.sn_mva = sn
        net.f_hz = fhz
        ppc = {"bus": ctx.obj(net._ppc["bus"]), "branch": ctx.obj(net._ppc["branch"].real), "baseMVA": sn}
        ppc["bus"][:, BASE_KV] = vn
        bb._calc_line_parameter(net, ppc)
        got = _two_port(ctx, mY, ppc["branch"][0])
        zb = vn * vn / sn
        n, l = V["parallel"], V["length_km"]
        zs = _cx(ctx, V["r_ohm_per_km"] * l / n, V["x_ohm_per_km"] * l / n) / zb
        ysh = _cx(ctx, V["g_us_per_km"] * 1e-6 * l * n, 2 * math.pi * fhz * V["c_nf_per_km"] * 1e-9 * l * n) * zb
        ys = 1 / zs
        ref = {"Yff": ys + ysh / 2, "Ytt": ys + ysh / 2, "Yft": -ys, "Ytf": -ys}
        for k in ref:
            ctx.eq(f"line_two_port_equals_pi_model/{k}", got[k], ref[k])
    return fn


# ------------------------------------------------------------------------------------------------- 2W trafo
def _trafo_net(tct, side, model, cva):
    key = ("trafo", tct, side, model, cva)
    if key not in _cache:
        net = pp.create_empty_network()
        b0 = pp.create_bus(net, 110.)
        b1 = pp.create_bus(net, 20.)
        pp.create_ext_grid(net, b0)
        pp.create_transformer_from_parameters(
            net, b0, b1, 40, 110, 20, 0.3, 12, 20, 0.05, shift_degree=150, tap_side=side, tap_neutral=0, tap_min=-2, tap_max=2,
            tap_step_percent=(0 if tct == "Ideal" else 1.5), tap_step_degree=(2. if tct == "Ideal" else 0), tap_pos=1,
            tap_changer_type=(None if tct == "None" else ("Ideal" if tct == "IdealPct" else tct)), parallel=2)
        pp.create_load(net, b1, 1., 0.5)
        pp.runpp(net, numba=False, calculate_voltage_angles=cva, trafo_model=model, lightsim2grid=False)
        _cache[key] = net
    return _cache[key]


def make_trafo(tct, side, model, cva=True):
    def fn(ctx):
        from pandapower.pypower.idx_bus import BASE_KV
        bb = ctx.load("pandapower.build_branch")
        mY = ctx.load("pandapower.pypower.makeYbus")
        net = copy.deepcopy(_trafo_net(tct, side, model, cva))
        sn_t = ctx.var("sn_mva", 1., 400.)
        vn_hv, vn_lv = ctx.var("vn_hv_kv", 50., 400.), ctx.var("vn_lv_kv", 0.4, 40.)
        vk = ctx.var("vk_percent", 1., 25.)
        m = ctx.var("m_vkr", 0.05, 0.95)              # vkr = vk (1-m^2)/(1+m^2)
        i0 = ctx.var("i0_percent", 0.01, 2.)
        nn = ctx.var("n_pfe", 0.05, 0.95)             # pfe = ym (1-n^2)/(1+n^2)
        shift = ctx.var("shift_degree", -180., 180.) if cva else 150.
        par = ctx.var("parallel", 1., 3.)
        dtap = ctx.var("tap_pos", -2., 2.)            # tap_neutral = 0
        vkr = vk * (1 - m * m) / (1 + m * m)
        ym_mva = i0 / 100 * sn_t
        pfe_kw = ym_mva * (1 - nn * nn) / (1 + nn * nn) * 1000
        vals = {"sn_mva": sn_t, "vn_hv_kv": vn_hv, "vn_lv_kv": vn_lv, "vk_percent": vk, "vkr_percent": vkr, "pfe_kw": pfe_kw,
                "i0_percent": i0, "shift_degree": shift, "parallel": par, "tap_pos": dtap}
        step = None
        if tct in ("Ratio", "Symmetrical"):
            step = ctx.var("tap_step_percent", 0.1, 3.)
            vals["tap_step_percent"] = step
        elif tct == "Ideal":
            step = ctx.var("tap_step_degree", 0.1, 5.)
            vals["tap_step_degree"] = step
        elif tct == "IdealPct":
            step = ctx.var("tap_step_percent", 0.1, 3.)
            vals["tap_step_percent"] = step
        for c, v in vals.items():
            setcol(ctx, net.trafo, c, [v])
        sn = ctx.var("net_sn_mva", 1., 1000.)
        net.sn_mva = sn
        vb_hv, vb_lv = ctx.var("vn_bus_hv", 50., 400.), ctx.var("vn_bus_lv", 0.4, 40.)
        ppc = {"bus": ctx.obj(net._ppc["bus"]), "branch": ctx.obj(net._ppc["branch"].real), "baseMVA": sn}
        ppc["bus"][0, BASE_KV] = vb_hv
        ppc["bus"][1, BASE_KV] = vb_lv
        bb._calc_trafo_parameter(net, ppc)
        f, t = net._pd2ppc_lookups["branch"]["trafo"]
        got = _two_port(ctx, mY, ppc["branch"][f])
        # ---- reference
        ntap = 1.0
        theta = shift if cva else 0.0
        v_hv, v_lv = vn_hv, vn_lv
        if tct in ("Ratio", "Symmetrical"):
            ntap = 1 + dtap * step / 100
            if side == "hv":
                v_hv = vn_hv * ntap
            else:
                v_lv = vn_lv * ntap
        elif tct == "Ideal" and cva:
            theta = theta + (dtap * step if side == "hv" else -dtap * step)
        elif tct == "IdealPct" and cva:
            # ideal phase shifter defined by the voltage step in percent: angle = 2 asin(n * step / 200) (doc/elements/trafo.rst)
            tt = dtap * step / 100 / 2
            if ctx.symbolic:
                from symx.core import arcsin_deg
                a = arcsin_deg(tt)
            else:
                a = math.degrees(math.asin(float(tt)))
            theta = theta + (2 * a if side == "hv" else -2 * a)
        ratio = (v_hv / v_lv) * (vb_lv / vb_hv)
        zn = vb_lv * vb_lv / sn                      # network base impedance on the LV side
        zt = v_lv * v_lv / sn_t                      # transformer base impedance (tap adjusted LV voltage)
        zk = vk / 100 * zt / zn
        rk = vkr / 100 * zt / zn
        xk = zk * 2 * m / (1 + m * m)
        z = _cx(ctx, rk, xk) / par
        ymag = i0 / 100 * zn / zt
        gm = ymag * (1 - nn * nn) / (1 + nn * nn)
        bm = ymag * 2 * nn / (1 + nn * nn)
        y = _cx(ctx, gm, -bm) * par
        if ctx.symbolic:
            from symx.core import unit
            ph = unit(theta)
            tap = _cx(ctx, ratio * ph.re, ratio * ph.im)
        else:
            tap = ratio * complex(math.cos(math.radians(float(theta))), math.sin(math.radians(float(theta))))
        tapc = tap.conjugate()
        if model == "pi":
            y11 = 1 / z + y / 2
            y22 = 1 / z + y / 2
            y12 = -1 / z
        else:
            z1 = z / 2
            z2 = z / 2
            det = z1 * z2 * y + z1 + z2
            y11 = (1 + z2 * y) / det
            y22 = (1 + z1 * y) / det
            y12 = -1 / det
        ref = {"Yff": y11 / (tap * tapc), "Yft": y12 / tapc, "Ytf": y12 / tap, "Ytt": y22}
        for k in ref:
            ctx.eq(f"trafo_two_port_equals_{model}_model/{k}", got[k], ref[k])
    return fn


# ------------------------------------------------------------------------------------------------- impedance
def _imp_net():
    if "imp" not in _cache:
        net = pp.create_empty_network(sn_mva=10.)
        b0 = pp.create_bus(net, 20.)
        b1 = pp.create_bus(net, 20.)
        pp.create_ext_grid(net, b0)
        pp.create_impedance(net, b0, b1, 0.01, 0.02, 10., rtf_pu=0.015, xtf_pu=0.025, gf_pu=0.001, bf_pu=0.002, gt_pu=0.0015, bt_pu=0.003)
        pp.create_load(net, b1, 1., 0.5)
        pp.runpp(net, numba=False, lightsim2grid=False)
        _cache["imp"] = net
    return _cache["imp"]


def make_impedance(same=()):
    """same: parameters whose to-side value equals the from-side value (asymmetry in r only, in x only, in the shunt parts only, none)"""
    def fn(ctx):
        bb = ctx.load("pandapower.build_branch")
        mY = ctx.load("pandapower.pypower.makeYbus")
        net = copy.deepcopy(_imp_net())
        rng = {"rft_pu": (0.001, 1.), "xft_pu": (0.001, 1.), "rtf_pu": (0.001, 1.), "xtf_pu": (0.001, 1.), "gf_pu": (0., 1.), "bf_pu": (-1., 1.),
               "gt_pu": (0., 1.), "bt_pu": (-1., 1.), "sn_mva": (1., 100.)}
        V = {c: ctx.var(c, *r) for c, r in rng.items()}
        for tf, ft in (("rtf_pu", "rft_pu"), ("xtf_pu", "xft_pu"), ("gt_pu", "gf_pu"), ("bt_pu", "bf_pu")):
            if tf in same:
                V[tf] = V[ft]
        for c in rng:
            setcol(ctx, net.impedance, c, [V[c]])
        sn = ctx.var("net_sn_mva", 1., 1000.)
        net.sn_mva = sn
        ppc = {"bus": ctx.obj(net._ppc["bus"]), "branch": ctx.obj(net._ppc["branch"].real), "baseMVA": sn}
        bb._calc_impedance_parameter(net, ppc)
        f, t = net._pd2ppc_lookups["branch"]["impedance"]
        got = _two_port(ctx, mY, ppc["branch"][f])
        k = sn / V["sn_mva"]        # per unit on the element's sn_mva -> per unit on the network base
        zft = _cx(ctx, V["rft_pu"], V["xft_pu"]) * k
        ztf = _cx(ctx, V["rtf_pu"], V["xtf_pu"]) * k
        yf = _cx(ctx, V["gf_pu"], V["bf_pu"]) / k
        yt = _cx(ctx, V["gt_pu"], V["bt_pu"]) / k
        ref = {"Yff": 1 / zft + yf, "Yft": -1 / zft, "Ytf": -1 / ztf, "Ytt": 1 / ztf + yt}
        for kk in ref:
            ctx.eq(f"impedance_two_port/{kk}", got[kk], ref[kk])
    return fn


# ------------------------------------------------------------------------------------------------- impedance switch
def _switch_net():
    if "sw" not in _cache:
        net = pp.create_empty_network(sn_mva=10.)
        b0 = pp.create_bus(net, 20.)
        b1 = pp.create_bus(net, 20.)
        pp.create_ext_grid(net, b0)
        pp.create_switch(net, b0, b1, "b", closed=True, z_ohm=2.)
        pp.create_load(net, b1, 1., 0.5)
        pp.runpp(net, numba=False, lightsim2grid=False)
        _cache["sw"] = net
    return _cache["sw"]


def switch_two_port(ctx, sn, z, k, vn):
    """real _calc_switch_parameter + branch_vectors for a closed bus-bus switch with z_ohm > 0"""
    from pandapower.pypower.idx_bus import BASE_KV
    bb = ctx.load("pandapower.build_branch")
    mY = ctx.load("pandapower.pypower.makeYbus")
    net = copy.deepcopy(_switch_net())
    setcol(ctx, net.switch, "z_ohm", [z])
    net.sn_mva = sn
    net._options["switch_rx_ratio"] = 2 * k / (1 - k * k)       # sqrt(1 + rx^2) = (1 + k^2) / (1 - k^2)
    ppc = {"bus": ctx.obj(net._ppc["bus"]), "branch": ctx.obj(net._ppc["branch"].real), "baseMVA": sn}
    ppc["bus"][:, BASE_KV] = vn
    bb._calc_switch_parameter(net, ppc)
    f, t = net._pd2ppc_lookups["branch"]["switch"]
    return _two_port(ctx, mY, ppc["branch"][f])


def make_switch():
    def fn(ctx):
        sn, z, k, vn = ctx.var("sn_mva", 1., 1000.), ctx.var("z_ohm", 0.01, 50.), ctx.var("k_rx", 0.05, 0.9), ctx.var("vn_kv", 0.4, 400.)
        got = switch_two_port(ctx, sn, z, k, vn)
        zb = vn * vn / sn
        rx = 2 * k / (1 - k * k)
        root = (1 + k * k) / (1 - k * k)
        zz = _cx(ctx, z / zb * rx / root, z / zb / root)         # |z| = z_ohm / Z_base, r / x = switch_rx_ratio
        ref = {"Yff": 1 / zz, "Ytt": 1 / zz, "Yft": -1 / zz, "Ytf": -1 / zz}
        for kk in ref:
            ctx.eq(f"impedance_switch_two_port/{kk}", got[kk], ref[kk])
    return fn


# ------------------------------------------------------------------------------------------------- result side
def make_results(trafo_loading):
    """reported branch currents and loadings from the terminal powers and voltages (the documented formulas)"""
    def fn(ctx):
        from . import c12
        rb = ctx.load("pandapower.results_branch")
        from pandapower.pypower.idx_brch import PF, QF, PT, QT, F_BUS, T_BUS
        from pandapower.pypower.idx_bus import VM, BASE_KV
        net = copy.deepcopy(c12._batch_net(trafo_loading))
        fl, tl = net._pd2ppc_lookups["branch"]["line"]
        ft, tt = net._pd2ppc_lookups["branch"]["trafo"]
        rows = {"line": fl, "trafo": ft}
        f3, hv3, mv3, lv3 = rb._get_trafo3w_lookups(net)
        rows3 = {"hv": (f3, "f"), "mv": (hv3, "t"), "lv": (mv3, "t")}     # terminal side of the three internal branches
        ppc = {"bus": ctx.obj(net._ppc["bus"]), "branch": ctx.obj(net._ppc["branch"].real)}
        S, W = {}, {}
        for el, k in rows.items():
            for side, (pc, qc) in (("f", (PF, QF)), ("t", (PT, QT))):
                sabs, w = ctx.var(f"s_{el}_{side}", 0., 60.), ctx.var(f"w_{el}_{side}", -0.9, 0.9)     # P + jQ = s (1-w^2 + 2jw)/(1+w^2)
                S[(el, side)] = sabs
                ppc["branch"][k, pc] = sabs * (1 - w * w) / (1 + w * w)
                ppc["branch"][k, qc] = sabs * 2 * w / (1 + w * w)
        for w3, (k, side) in rows3.items():
            pc, qc = (PF, QF) if side == "f" else (PT, QT)
            sabs, w = ctx.var(f"s_t3_{w3}", 0., 60.), ctx.var(f"w_t3_{w3}", -0.9, 0.9)
            S[("t3", w3)] = sabs
            ppc["branch"][k, pc] = sabs * (1 - w * w) / (1 + w * w)
            ppc["branch"][k, qc] = sabs * 2 * w / (1 + w * w)
        vm, vn = {}, {}
        t3bus = {}
        for el, k, side, col in [(el, k, side, col) for el, k in rows.items() for side, col in (("f", F_BUS), ("t", T_BUS))] + \
                                [("t3_" + w3, k, side, F_BUS if side == "f" else T_BUS) for w3, (k, side) in rows3.items()]:
            b = int(ppc["branch"][k, col])
            if el.startswith("t3_"):
                t3bus[el[3:]] = b
            if b not in vm:
                vm[b] = ctx.var(f"vm{b}", 0.8, 1.2)
                ppc["bus"][b, VM] = vm[b]
                vn[b] = float(ppc["bus"][b, BASE_KV])
        t3 = {c: ctx.var(f"trafo3w_{c}", lo, hi) for c, (lo, hi) in {"sn_hv_mva": (1., 100.), "sn_mv_mva": (1., 100.), "sn_lv_mva": (1., 100.),
                                                                      "vn_hv_kv": (50., 400.), "vn_mv_kv": (5., 40.), "vn_lv_kv": (0.4, 20.)}.items()}
        for c, v in t3.items():
            setcol(ctx, net.trafo3w, c, [v])
        line = {c: ctx.var(f"line_{c}", lo, hi) for c, (lo, hi) in {"max_i_ka": (0.05, 2.), "df": (0.1, 1.), "parallel": (1., 3.)}.items()}
        for c, v in line.items():
            col = list(net.line[c].values.astype(float))
            col[0] = v
            setcol(ctx, net.line, c, col)
        tr = {c: ctx.var(f"trafo_{c}", lo, hi) for c, (lo, hi) in {"sn_mva": (1., 100.), "vn_hv_kv": (50., 400.), "vn_lv_kv": (5., 40.), "df": (0.1, 1.), "parallel": (1., 3.)}.items()}
        for c, v in tr.items():
            setcol(ctx, net.trafo, c, [v])
        for t in ("res_line", "res_trafo", "res_trafo3w"):
            net[t] = net[t].astype(object if ctx.symbolic else float)
        i_ft, s_ft = rb._get_branch_flows(ppc)
        rb._get_line_results(net, ppc, i_ft)
        rb._get_trafo_results(net, ppc, s_ft, i_ft)
        rb._get_trafo3w_results(net, ppc, s_ft, i_ft)
        s3 = np.sqrt(3)
        r3 = net.res_trafo3w
        cur, lds = {}, []
        for w3 in ("hv", "mv", "lv"):
            b = t3bus[w3]
            cur[w3] = S[("t3", w3)] / (vm[b] * vn[b] * s3)
            ctx.eq(f"trafo3w_i_{w3}_is_S_over_sqrt3_V", r3[f"i_{w3}_ka"].values[0], cur[w3])
            if trafo_loading == "current":
                lds.append(cur[w3] * t3[f"vn_{w3}_kv"] * s3 / t3[f"sn_{w3}_mva"] * 100)
            else:
                lds.append(S[("t3", w3)] / t3[f"sn_{w3}_mva"] * 100)
        ld3 = r3.loading_percent.values[0]
        ctx.true(f"trafo3w_loading_{trafo_loading}_is_the_largest_winding_loading_over_its_own_rating",
                 ((ld3 == lds[0]) | (ld3 == lds[1]) | (ld3 == lds[2])) & (ld3 >= lds[0]) & (ld3 >= lds[1]) & (ld3 >= lds[2]))
        k = rows["line"]
        fb, tb = int(ppc["branch"][k, F_BUS]), int(ppc["branch"][k, T_BUS])
        i_f = S[("line", "f")] / (vm[fb] * vn[fb] * s3)
        i_t = S[("line", "t")] / (vm[tb] * vn[tb] * s3)
        rl = net.res_line
        ctx.eq("line_i_from_is_S_over_sqrt3_V", rl.i_from_ka.values[0], i_f)
        ctx.eq("line_i_to_is_S_over_sqrt3_V", rl.i_to_ka.values[0], i_t)
        ctx.true("line_i_ka_is_the_larger_terminal_current", ((rl.i_ka.values[0] == i_f) | (rl.i_ka.values[0] == i_t)) & (rl.i_ka.values[0] >= i_f) & (rl.i_ka.values[0] >= i_t))
        ctx.eq("line_loading_is_i_over_rated_current", rl.loading_percent.values[0] * (line["max_i_ka"] * line["df"] * line["parallel"]), rl.i_ka.values[0] * 100)
        k = rows["trafo"]
        hb, lb = int(ppc["branch"][k, F_BUS]), int(ppc["branch"][k, T_BUS])
        i_h = S[("trafo", "f")] / (vm[hb] * vn[hb] * s3)
        i_l = S[("trafo", "t")] / (vm[lb] * vn[lb] * s3)
        rt = net.res_trafo
        ctx.eq("trafo_i_hv_is_S_over_sqrt3_V", rt.i_hv_ka.values[0], i_h)
        ctx.eq("trafo_i_lv_is_S_over_sqrt3_V", rt.i_lv_ka.values[0], i_l)
        ld = rt.loading_percent.values[0] * tr["parallel"] * tr["df"]
        if trafo_loading == "current":
            a, b = i_h * tr["vn_hv_kv"] * s3 / tr["sn_mva"] * 100, i_l * tr["vn_lv_kv"] * s3 / tr["sn_mva"] * 100
        else:
            a, b = S[("trafo", "f")] / tr["sn_mva"] * 100, S[("trafo", "t")] / tr["sn_mva"] * 100
        ctx.true(f"trafo_loading_{trafo_loading}_is_the_larger_side_over_rating", ((ld == a) | (ld == b)) & (ld >= a) & (ld >= b))
    return fn


# ------------------------------------------------------------------------------------------------- DC model
def make_dc(gens=((0, True),)):
    """linear DC model: real makeBdc and the result lines of the real _run_dc_pf (linear solve replaced by its contract)
    gens: (bus, is reference generator) per generator row - e.g. an ext_grid and a PV gen sharing the slack bus"""
    def fn(ctx):
        dc = ctx.load("pandapower.pf.run_dc_pf")
        mB = ctx.load("pandapower.pypower.makeBdc")
        from . import c01
        from pandapower.pypower.idx_bus import BUS_I, VA, VM, PD, GS, BUS_TYPE, bus_cols
        from pandapower.pypower.idx_gen import GEN_BUS, GEN_STATUS, PG
        from pandapower.pypower.idx_brch import F_BUS, T_BUS, BR_X, TAP, SHIFT, BR_STATUS, PF, PT, QF, QT, branch_cols
        ft = [(0, 1), (1, 2), (0, 2)]
        nb, nl = 3, 3
        bus, gen = c01._bus_gen_arrays(ctx, nb, len(gens))
        branch = ctx.obj(np.zeros((nl, branch_cols)))
        x, tap, shift = [], [], []
        for k, (f, t) in enumerate(ft):
            branch[k, F_BUS], branch[k, T_BUS], branch[k, BR_STATUS] = f, t, 1
            x.append(ctx.var(f"x{k}", 0.01, 1.))
            tap.append(ctx.var(f"tap{k}", 0.8, 1.2) if k == 0 else 1.0)
            shift.append(ctx.var(f"shift{k}", -30., 30.) if k == 0 else 0.0)
            branch[k, BR_X], branch[k, TAP], branch[k, SHIFT] = x[k], (tap[k] if k == 0 else 0.0), shift[k]
        pd_ = []
        for b in range(nb):
            bus[b, BUS_I], bus[b, VM] = b, 1.0
            bus[b, BUS_TYPE] = 3 if b == 0 else 1
            pd_.append(ctx.var(f"pd{b}", -5., 5.))
            bus[b, PD] = pd_[b]
            bus[b, GS] = ctx.var(f"gs{b}", 0., 1.)
        pg_set = []
        for g, (gb, is_ref) in enumerate(gens):
            pg_set.append(0.0 if is_ref else ctx.var(f"pg_set{g}", -5., 5.))
            gen[g, GEN_BUS], gen[g, GEN_STATUS], gen[g, PG] = gb, 1, pg_set[g]
        ref_gens = np.array([g for g, (gb, is_ref) in enumerate(gens) if is_ref])
        base = 10.0
        Bbus, Bf, Pbusinj, Pfinj, Cft = mB.makeBdc(bus, branch)
        BF = Bf.toarray() if hasattr(Bf, "toarray") else np.asarray(Bf)
        BB = Bbus.toarray() if hasattr(Bbus, "toarray") else np.asarray(Bbus)
        for k, (f, t) in enumerate(ft):
            bk = 1 / (x[k] * tap[k])
            ctx.eq(f"Bf[{k}]_from_entry_is_1_over_x_tap", BF[k, f], bk)
            ctx.eq(f"Bf[{k}]_to_entry_is_minus_1_over_x_tap", BF[k, t], -bk)
            ctx.eq(f"phase_shift_injection[{k}]", Pfinj[k], -bk * shift[k] * np.pi / 180.)
        for i in range(nb):
            for j in range(nb):
                want = 0.0
                for k, (f, t) in enumerate(ft):
                    bk = 1 / (x[k] * tap[k])
                    if i == f and j == f or i == t and j == t:
                        want = want + bk
                    if i == f and j == t or i == t and j == f:
                        want = want - bk
                ctx.eq(f"Bbus[{i},{j}]_is_the_dc_nodal_matrix", BB[i, j], want)
        # result lines of _run_dc_pf with a symbolic solution Va (degrees -> radians inside)
        th = [0.0] + [ctx.var(f"theta{b}", -0.5, 0.5) for b in (1, 2)]       # radians
        ppci = {"bus": bus, "gen": gen, "branch": branch, "baseMVA": base, "internal": {},
                "svc": np.zeros((0, 20)), "tcsc": np.zeros((0, 30)), "ssc": np.zeros((0, 20)), "vsc": np.zeros((0, 30))}
        from .common import patched

        def fake_dcpf(B, Pbus, Va0, ref, pv, pq):
            return ctx.array(th)

        def fake_vars(ppci_, *a):
            pvb = np.array(sorted({gb for gb, is_ref in gens if gb != 0}), dtype=int)
            return (base, bus, gen, branch, None, None, None, None, np.array([0]), pvb, np.array([b for b in (1, 2) if b not in pvb]), None, None, ref_gens)
        with patched(dc, dcpf=fake_dcpf, _get_pf_variables_from_ppci=fake_vars, _store_results_from_pf_in_ppci=lambda ppci_, bus_, gen_, branch_, *a: ppci_):
            dc._run_dc_pf(ppci, False)
        for k, (f, t) in enumerate(ft):
            want = (th[f] - th[t] - shift[k] * np.pi / 180.) / (x[k] * tap[k]) * base
            ctx.eq(f"dc_flow[{k}]_is_angle_difference_over_reactance", branch[k, PF], want)
            ctx.eq(f"dc_flow[{k}]_p_to_is_minus_p_from", branch[k, PT], -branch[k, PF])
            ctx.eq(f"dc_flow[{k}]_no_reactive_power", branch[k, QF] + branch[k, QT], 0.0)
        # slack: generation = flows leaving the slack bus + demand + conductance part
        out0 = 0.0
        for k, (f, t) in enumerate(ft):
            if f == 0:
                out0 = out0 + branch[k, PF]
            if t == 0:
                out0 = out0 + branch[k, PT]
        at_slack = 0.0
        for g, (gb, is_ref) in enumerate(gens):
            if gb == 0:
                at_slack = at_slack + gen[g, PG]
            if not is_ref:
                ctx.eq(f"non_reference_generator_keeps_its_setpoint/gen{g}", gen[g, PG], pg_set[g])
        ctx.eq("slack_generation_balances_its_bus", at_slack, out0 + pd_[0] + bus[0, GS])
        refs_at_slack = [g for g, (gb, is_ref) in enumerate(gens) if is_ref]
        for g in refs_at_slack[1:]:
            ctx.eq(f"reference_generators_share_the_slack_power_equally/gen{g}", gen[g, PG], gen[refs_at_slack[0], PG])
    return fn


# ------------------------------------------------------------------------------------------------- three-winding transformer
def make_trafo3w(loss_side="hv"):
    """documented star equivalent of the three-winding transformer: the three equivalent two-winding transformers reproduce the three
    pairwise short-circuit impedances (vk_xx_percent / vkr_xx_percent, each relative to the smaller rating of its pair), the open-loop
    data sit at the documented side, the phase shifts at T2 / T3"""
    def fn(ctx):
        from . import c12
        from pandapower.pypower.idx_brch import BR_R, BR_X, BR_B, BR_G, TAP, SHIFT, F_BUS, T_BUS
        bb = ctx.load("pandapower.build_branch")
        net = copy.deepcopy(c12._batch_net("current"))
        net._options["trafo3w_losses"] = loss_side
        net._options["trafo_model"] = "pi"
        sn = {w: ctx.var(f"sn_{w}_mva", 5., 100.) for w in ("hv", "mv", "lv")}
        vk, vkr, vki = {}, {}, {}
        for w in ("hv", "mv", "lv"):
            vk[w] = ctx.var(f"vk_{w}_percent", 2., 20.)
            m = ctx.var(f"m_{w}", 0.5, 0.98)          # vkr = vk (1-m^2)/(1+m^2), vki = vk 2m/(1+m^2): both rational
            vkr[w] = vk[w] * (1 - m * m) / (1 + m * m)
            vki[w] = vk[w] * 2 * m / (1 + m * m)
        i0, nn = ctx.var("i0_percent", 0.0, 2.), ctx.var("n_pfe", 0.05, 0.95)
        pfe = i0 / 100 * sn[loss_side if loss_side != "star" else "hv"] * (1 - nn * nn) / (1 + nn * nn) * 1000
        vals = {"i0_percent": i0, "pfe_kw": pfe, "shift_mv_degree": 0.0, "shift_lv_degree": 0.0}
        for w in ("hv", "mv", "lv"):
            vals[f"sn_{w}_mva"], vals[f"vk_{w}_percent"], vals[f"vkr_{w}_percent"] = sn[w], vk[w], vkr[w]
        for c, v in vals.items():
            setcol(ctx, net.trafo3w, c, [v])
        net.trafo3w["tap_pos"] = net.trafo3w["tap_neutral"] = 0
        net.trafo3w["tap_changer_type"] = None
        base = net.sn_mva
        ppc = {"bus": ctx.obj(net._ppc["bus"]), "branch": ctx.obj(net._ppc["branch"].real), "baseMVA": base}
        bb._calc_trafo3w_parameter(net, ppc)
        f, t = net._pd2ppc_lookups["branch"]["trafo3w"]
        n3 = len(net.trafo3w)
        row = {"hv": f, "mv": f + n3, "lv": f + 2 * n3}
        z = {w: (ppc["branch"][row[w], BR_R], ppc["branch"][row[w], BR_X]) for w in row}
        for w in row:
            ctx.eq(f"T_{w}_has_no_off_nominal_ratio_at_neutral_tap", ppc["branch"][row[w], TAP], 1.0)
        ctx.true("star_topology_T1_hv_to_aux_T2_aux_to_mv_T3_aux_to_lv",
                 int(ppc["branch"][row["hv"], T_BUS]) == int(ppc["branch"][row["mv"], F_BUS]) == int(ppc["branch"][row["lv"], F_BUS]))
        # pairwise short-circuit impedances in per unit of the network base (ratio 1, all bus voltages nominal)
        fmin = lambda a, b_: a if bool(a <= b_) else b_
        pairs = {"hv": ("hv", "mv"), "mv": ("mv", "lv"), "lv": ("hv", "lv")}
        for w, (a, b_) in pairs.items():
            smin = fmin(sn[a], sn[b_])
            ctx.eq(f"short_circuit_resistance_{a}_{b_}_is_vkr_{w}_percent_on_the_smaller_rating", (z[a][0] + z[b_][0]) * smin * 100, vkr[w] * base)
            ctx.eq(f"short_circuit_reactance_{a}_{b_}_is_the_imaginary_part_of_vk_{w}_percent", (z[a][1] + z[b_][1]) * smin * 100, vki[w] * base)
        if loss_side in row:
            g, b = ppc["branch"][row[loss_side], BR_G], ppc["branch"][row[loss_side], BR_B]
            ctx.eq("iron_losses_at_the_documented_side", g * base * 1000, pfe)
            ctx.eq("open_loop_admittance_magnitude_is_i0_percent_of_that_sides_rating", (g * g + b * b) * base * base * 100 * 100, i0 * i0 * sn[loss_side] * sn[loss_side])
            for w in row:
                if w != loss_side:
                    ctx.eq(f"no_open_loop_admittance_at_T_{w}", ppc["branch"][row[w], BR_G] * ppc["branch"][row[w], BR_G] + ppc["branch"][row[w], BR_B] * ppc["branch"][row[w], BR_B], 0.0)
    return fn


def instances(tier):
    out = [Inst("line", make_line(), nvars=20, samples=3, meta=dict(element="line")),
           Inst("dc_model", make_dc(), nvars=30, samples=2, meta=dict(part="DC power flow model")),
           Inst("dc_model_gen_at_the_slack_bus", make_dc(((0, True), (0, False), (2, False))), nvars=34, samples=2, meta=dict(part="DC power flow model", generators="ext_grid + PV gen at the slack bus, PV gen elsewhere")),
           Inst("dc_model_two_ext_grids", make_dc(((0, True), (0, True), (0, False))), nvars=34, samples=2, meta=dict(part="DC power flow model", generators="two ext_grids + PV gen at the slack bus")),
           Inst("results_current", make_results("current"), nvars=48, samples=2, raises=(UserWarning,), meta=dict(part="result side", trafo_loading="current")),
           Inst("results_power", make_results("power"), nvars=48, samples=2, raises=(UserWarning,), meta=dict(part="result side", trafo_loading="power")),
           Inst("impedance_switch", make_switch(), nvars=16, samples=3, meta=dict(element="bus-bus switch with z_ohm > 0")),
           Inst("impedance", make_impedance(), nvars=20, samples=3, meta=dict(element="impedance")),
           Inst("impedance_asymmetric_in_x_only", make_impedance(("rtf_pu", "gt_pu", "bt_pu")), nvars=20, samples=3, meta=dict(element="impedance", asymmetric=["x"])),
           Inst("impedance_asymmetric_in_r_only", make_impedance(("xtf_pu", "gt_pu", "bt_pu")), nvars=20, samples=3, meta=dict(element="impedance", asymmetric=["r"])),
           Inst("impedance_asymmetric_in_b_only", make_impedance(("rtf_pu", "xtf_pu", "gt_pu")), nvars=20, samples=3, meta=dict(element="impedance", asymmetric=["b"])),
           Inst("impedance_asymmetric_in_g_only", make_impedance(("rtf_pu", "xtf_pu", "bt_pu")), nvars=20, samples=3, meta=dict(element="impedance", asymmetric=["g"])),
           Inst("impedance_symmetric", make_impedance(("rtf_pu", "xtf_pu", "gt_pu", "bt_pu")), nvars=20, samples=3, meta=dict(element="impedance", asymmetric=[]))]
    combos = [("None", "hv", "pi"), ("Ratio", "hv", "pi"), ("Ratio", "lv", "pi"), ("Ideal", "hv", "pi"), ("Ideal", "lv", "pi"),
              ("IdealPct", "hv", "pi"), ("IdealPct", "lv", "pi"), ("Ratio", "hv", "t")]
    if tier == "thorough":
        combos = [(t, s, m) for t in ("None", "Ratio", "Symmetrical", "Ideal", "IdealPct") for s in ("hv", "lv") for m in ("pi", "t")]
    for tct, side, model in combos:
        out.append(Inst(f"trafo_{model}_{tct}_{side}", make_trafo(tct, side, model), nvars=30, samples=2, timeout_ms=60000,
                        meta=dict(element="trafo", trafo_model=model, tap_changer_type=tct, tap_side=side, calculate_voltage_angles=True),
                        raises=(UserWarning,)))
    for ls in ("hv",) + (("mv", "lv") if tier == "thorough" else ()):
        out.append(Inst(f"trafo3w_star_equivalent_losses_{ls}", make_trafo3w(ls), nvars=30, samples=2, timeout_ms=60000, raises=(UserWarning,),
                        meta=dict(element="trafo3w", trafo3w_losses=ls)))
    out.append(Inst("trafo_pi_Ratio_hv_noangles", make_trafo("Ratio", "hv", "pi", cva=False), nvars=30, samples=2,
                    meta=dict(element="trafo", trafo_model="pi", tap_changer_type="Ratio", tap_side="hv", calculate_voltage_angles=False)))
    return out


INSTANCE_TIMEOUT_S = {"quick": 900, "thorough": 3000}
LEVEL_TEXT = ("Bounded model checking of the element builders against independent reference circuits: the real line / transformer / "
              "impedance builders followed by the real branch_vectors produce the two-port (Yff, Yft, Ytf, Ytt) from symbolic element "
              "parameters, and z3 shows each entry equal to the documented pi / T model written independently in the harness, for all values.")
LEVEL_NOTE = ("Trusted: the harness's reference models (short, from doc/elements), Newton (generic), z3, sympy normalisation. "
              "Bounds: one element per instance, enumerated model / tap changer / side combinations.")
