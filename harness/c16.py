"""C16 OPF results are feasible operating points (translation of declared limits into the solver's box, and back)."""
import copy

import numpy as np

from .common import pp, Inst, setcol

PROPERTY = "C16"
LEVEL = "model_checking"
FUNCTIONS = [("pandapower.build_gen", "_build_gen_ppc"), ("pandapower.build_gen", "_build_pp_gen"), ("pandapower.build_gen", "_build_pp_ext_grid"),
             ("pandapower.build_gen", "_build_pp_pq_element"), ("pandapower.build_gen", "add_p_constraints"), ("pandapower.build_gen", "add_q_constraints"),
             ("pandapower.build_gen", "_check_gen_vm_limits"), ("pandapower.build_gen", "_enforce_controllable_vm_pu_p_mw"),
             ("pandapower.results_bus", "write_pq_results_to_element"), ("pandapower.pypower.opf_setup", "opf_setup"), ("pandapower.build_branch", "_calc_line_parameter"), ("pandapower.build_branch", "_calc_trafo_parameter"), ("pandapower.pypower.makeBdc", "makeBdc")]
STUBS = ["dcline instance: create_gen -> a recorder of its keyword arguments (contract: create_gen stores them in the new gen row)", "opf_model (the container opf_setup fills) -> a recorder of the variable bounds and linear constraint blocks", "the interior point solver's contract: on convergence the returned point lies inside the ppc box (PMIN<=PG<=PMAX, QMIN<=QG<=QMAX, "
         "VMIN<=VM<=VMAX); the point is symbolic and constrained only by that box"]
ASSUMPTIONS = ["declared limits symbolic with min <= max; delta = 1e-10 (the repository's OPF tolerance widening)",
               "gen voltage limits inside the bus voltage limits (the documented consistent case; the inconsistent case only logs a warning)"]
OUTSIDE = ["AC branch loading limits (nonlinear constraint functions inside PIPS)", "optimality", "PowerModels", "dcline constraint row (needs the om object); reading the dcline results back from the auxiliary generators",
           "'a power flow with the OPF dispatch reproduces the results' (iterative)"]
BOUNDS = {"quick": "ext_grid + 2 gens (controllable / not) + controllable sgen, load, storage; every declared p/q/vm limit symbolic; DC OPF flow constraints of the real opf_setup on 3 buses with a line and a phase shifting transformer (2 orientations)", "thorough": "same"}
_NET = {}
DELTA = 1e-10


def _net():
    if "n" not in _NET:
        net = pp.create_empty_network()
        b = [pp.create_bus(net, 20., min_vm_pu=0.9, max_vm_pu=1.1) for _ in range(4)]
        pp.create_ext_grid(net, b[0], min_p_mw=-10, max_p_mw=10, min_q_mvar=-10, max_q_mvar=10)
        for k in range(3):
            pp.create_line_from_parameters(net, b[k], b[k + 1], 1., 0.1, 0.1, 10, 1., max_loading_percent=100)
        pp.create_gen(net, b[1], 0.5, vm_pu=1.0, controllable=True, min_p_mw=0, max_p_mw=1, min_q_mvar=-1, max_q_mvar=1, min_vm_pu=0.95, max_vm_pu=1.05)
        pp.create_gen(net, b[2], 0.4, vm_pu=1.01, controllable=False, min_p_mw=0, max_p_mw=1, min_q_mvar=-1, max_q_mvar=1, min_vm_pu=0.95, max_vm_pu=1.05)
        pp.create_sgen(net, b[3], 0.3, 0.1, controllable=True, min_p_mw=0, max_p_mw=1, min_q_mvar=-1, max_q_mvar=1)
        pp.create_load(net, b[3], 1., 0.5, controllable=True, min_p_mw=0, max_p_mw=2, min_q_mvar=0, max_q_mvar=1)
        pp.create_storage(net, b[3], 0.2, 1., controllable=True, min_p_mw=-1, max_p_mw=1, min_q_mvar=-1, max_q_mvar=1)
        pp.create_load(net, b[2], 0.3, 0.1)
        pp.create_poly_cost(net, 0, "ext_grid", 1.)
        try:
            pp.runopp(net, numba=False)
        except Exception:
            pass          # only the options, lookups and the ppc skeleton of the OPF conversion are needed
        from pandapower.pd2ppc import _pd2ppc
        net["_ppc"] = _pd2ppc(net)[0]
        _NET["n"] = net
    return _NET["n"]


def make_fn():
    def fn(ctx):
        bg = ctx.load("pandapower.build_gen")
        rb = ctx.load("pandapower.results_bus")
        from pandapower.pypower.idx_gen import PG, QG, PMIN, PMAX, QMIN, QMAX
        from pandapower.pypower.idx_bus import VMIN, VMAX, VM
        net = copy.deepcopy(_net())
        lim = {}
        for tab, rows in (("ext_grid", 1), ("gen", 2), ("sgen", 1), ("load", 1), ("storage", 1)):
            for q in ("p_mw", "q_mvar"):
                lo = [ctx.var(f"{tab}{r}_min_{q}", -20., 20.) for r in range(rows)]
                hi = [lo[r] + ctx.var(f"{tab}{r}_width_{q}", 0., 20.) for r in range(rows)]       # min <= max
                if tab == "load":       # the second load is not controllable
                    lo, hi = lo + [0.0], hi + [0.0]
                setcol(ctx, net[tab], f"min_{q}", lo)
                setcol(ctx, net[tab], f"max_{q}", hi)
                lim[(tab, q)] = (lo, hi)
        gp = [ctx.var(f"gen{r}_p_set", -20., 20.) for r in range(2)]
        gv = [ctx.var(f"gen{r}_vm_set", 0.96, 1.04) for r in range(2)]
        gvlo = [ctx.var(f"gen{r}_min_vm", 0.91, 1.0) for r in range(2)]
        gvhi = [ctx.var(f"gen{r}_max_vm", 1.0, 1.09) for r in range(2)]
        setcol(ctx, net.gen, "p_mw", gp)
        setcol(ctx, net.gen, "vm_pu", gv)
        setcol(ctx, net.gen, "min_vm_pu", gvlo)
        setcol(ctx, net.gen, "max_vm_pu", gvhi)
        ppc = net._ppc_opf if False else net._ppc
        ppc["bus"], ppc["gen"] = ctx.obj(ppc["bus"]), ctx.obj(ppc["gen"])
        net._options["mode"] = "opf"
        ppc["bus"][:, VMIN] = 0.9          # fresh bus rows as _build_bus_ppc writes them from net.bus.min_vm_pu / max_vm_pu
        ppc["bus"][:, VMAX] = 1.1
        bg._build_gen_ppc(net, ppc)
        lk = net._pd2ppc_lookups
        # the solver's point: anywhere inside the box
        ng = ppc["gen"].shape[0]
        for g in range(ng):
            for col, nm, lo, hi in ((PG, "pg", PMIN, PMAX), (QG, "qg", QMIN, QMAX)):
                t = ctx.var(f"{nm}{g}_pos_in_box", 0., 1.)          # any point of the box [lo, hi]
                ppc["gen"][g, col] = ppc["gen"][g, lo] + t * (ppc["gen"][g, hi] - ppc["gen"][g, lo])
        for t in ("res_sgen", "res_load", "res_storage"):
            net[t] = net[t].astype(object if ctx.symbolic else float)
        for el in ("sgen", "load", "storage"):
            rb.write_pq_results_to_element(net, ppc, el)
            for q in ("p_mw", "q_mvar"):
                lo, hi = lim[(el, q)]
                v = net["res_" + el][q].values[0]
                ctx.le(f"{el}_{q}_not_below_declared_min", lo[0] - 2 * DELTA, v)
                ctx.le(f"{el}_{q}_not_above_declared_max", v, hi[0] + 2 * DELTA)
        # gens and ext_grid: result = ppc gen row
        rows = {"ext_grid0": int(lk["ext_grid"][0]), "gen0": int(lk["gen"][0]), "gen1": int(lk["gen"][1])}
        for nm, row in rows.items():
            tab, r = nm[:-1], int(nm[-1])
            for q, col in (("p_mw", PG), ("q_mvar", QG)):
                lo, hi = lim[(tab, q)]
                if nm == "gen1" and q == "p_mw":
                    ctx.le("non_controllable_gen_keeps_p_setpoint/lower", gp[1] - 2 * DELTA, ppc["gen"][row, col])
                    ctx.le("non_controllable_gen_keeps_p_setpoint/upper", ppc["gen"][row, col], gp[1] + 2 * DELTA)
                else:
                    ctx.le(f"{nm}_{q}_not_below_declared_min", lo[r] - 2 * DELTA, ppc["gen"][row, col])
                    ctx.le(f"{nm}_{q}_not_above_declared_max", ppc["gen"][row, col], hi[r] + 2 * DELTA)
        # voltage box of the gen buses
        for r in range(2):
            gb = lk["bus"][net.gen.bus.values[r]]
            if r == 1:      # not controllable: fixed at the setpoint
                ctx.le("non_controllable_gen_bus_vmin_is_setpoint", gv[1] - 2 * DELTA, ppc["bus"][gb, VMIN])
                ctx.le("non_controllable_gen_bus_vmax_is_setpoint", ppc["bus"][gb, VMAX], gv[1] + 2 * DELTA)
            else:
                ctx.le(f"gen{r}_bus_vmin_not_below_declared_gen_min", gvlo[r], ppc["bus"][gb, VMIN] + 2 * DELTA)
                ctx.le(f"gen{r}_bus_vmax_not_above_declared_gen_max", ppc["bus"][gb, VMAX], gvhi[r] + 2 * DELTA)
    return fn


def make_dc_branch_limits(layout):
    """DC OPF: the linear branch flow constraints the real opf_setup hands to the solver are satisfied exactly by the angle vectors whose
    reported flow (Bf Va + Pfinj of the real makeBdc, which is what the DC OPF writes into the results) lies within -RATE_A..RATE_A"""
    def fn(ctx):
        os_ = ctx.load("pandapower.pypower.opf_setup")
        mB = ctx.load("pandapower.pypower.makeBdc")
        from symx.core import implies, all_of
        from pandapower.pypower.idx_bus import BUS_I, BUS_TYPE, VA, VM, PD, GS, bus_cols
        from pandapower.pypower.idx_brch import F_BUS, T_BUS, BR_X, TAP, SHIFT, BR_STATUS, RATE_A, branch_cols
        from pandapower.pypower.idx_gen import GEN_BUS, GEN_STATUS, PG, PMIN, PMAX, VG, gen_cols
        from pandapower.pypower.idx_cost import MODEL, NCOST, COST
        nb = 3
        bus = ctx.obj(np.zeros((nb, bus_cols)))
        for b in range(nb):
            bus[b, BUS_I], bus[b, BUS_TYPE], bus[b, VM] = b, (3 if b == 0 else 1), 1.0
            bus[b, PD] = ctx.var(f"pd{b}", -5., 5.)
        branch = ctx.obj(np.zeros((len(layout), branch_cols)))
        rate, shift = {}, {}
        for k, (f, t, kind) in enumerate(layout):
            branch[k, F_BUS], branch[k, T_BUS], branch[k, BR_STATUS] = f, t, 1
            branch[k, BR_X] = ctx.var(f"x{k}", 0.01, 1.)
            branch[k, TAP] = ctx.var(f"tap{k}", 0.9, 1.1) if kind == "t" else 0.0
            if kind == "t":
                shift[k] = ctx.var(f"shift{k}", -60., 60.)
                branch[k, SHIFT] = shift[k]
            if kind != "free":
                rate[k] = ctx.var(f"rate{k}", 0.5, 50.)
                branch[k, RATE_A] = rate[k]
        gen = ctx.obj(np.zeros((2, gen_cols)))
        pmin = [ctx.var(f"pmin{g}", -10., 0.) for g in range(2)]
        pmax = [ctx.var(f"pmax{g}", 0., 10.) for g in range(2)]
        for g, gb in enumerate((0, 2)):
            gen[g, GEN_BUS], gen[g, GEN_STATUS], gen[g, VG], gen[g, PMIN], gen[g, PMAX] = gb, 1, 1.0, pmin[g], pmax[g]
        gencost = np.zeros((2, 7))
        gencost[:, MODEL], gencost[:, NCOST], gencost[:, COST] = 2, 2, 1.0
        base = 10.0
        ppc = {"baseMVA": base, "bus": bus, "gen": gen, "branch": branch, "gencost": gencost}
        rec = {"vars": {}, "cons": {}}

        class OM:
            def __init__(self, ppc_): pass
            def userdata(self, *a): return None
            def add_vars(self, name, N, v0=None, vl=None, vu=None): rec["vars"][name] = (N, v0, vl, vu)
            def add_constraints(self, name, A, l, u, varsets=None): rec["cons"][name] = (A, l, u, varsets)
        ppopt = {"PF_DC": 1, "OPF_ALG": 200, "VERBOSE": 0, "OPF_IGNORE_ANG_LIM": 1}
        from .common import patched
        with patched(os_, opf_model=OM, run_userfcn=lambda *a: None):
            os_.opf_setup(ppc, ppopt)
        ctx.true("constraints_handed_to_the_solver", set(("Pmis", "Pf", "Pt")) <= set(rec["cons"]) and set(("Va", "Pg")) <= set(rec["vars"]))
        if not set(("Pmis", "Pf", "Pt")) <= set(rec["cons"]):
            return
        B, Bf, Pbusinj, Pfinj, _ = mB.makeBdc(bus, branch)
        dense = lambda M: M.toarray() if hasattr(M, "toarray") else np.asarray(M)
        Bfd = dense(Bf)
        va = [0.0] + [ctx.var(f"va{b}", -1., 1.) for b in range(1, nb)]          # radians, reference angle 0
        limited = sorted(rate)
        Apf, lpf, upf, _ = rec["cons"]["Pf"]
        Apt, lpt, upt, _ = rec["cons"]["Pt"]
        Apf, Apt = dense(Apf), dense(Apt)
        ctx.true("one_constraint_row_per_limited_branch", Apf.shape[0] == len(limited) and Apt.shape[0] == len(limited))
        if Apf.shape[0] != len(limited):
            return
        for r, k in enumerate(limited):
            flow = sum(Bfd[k, j] * va[j] for j in range(nb)) + Pfinj[k]          # per unit; the reported p_from is flow * baseMVA
            row_f = sum(Apf[r, j] * va[j] for j in range(nb))
            row_t = sum(Apt[r, j] * va[j] for j in range(nb))
            sat = (row_f <= upf[r]) & (row_t <= upt[r])
            within = (flow * base <= rate[k]) & (flow * base >= -rate[k])
            ctx.true(f"solver_constraints_imply_flow_within_rating/branch{k}", implies(sat, within) if ctx.symbolic else ((not sat) or within))
            ctx.true(f"flow_within_rating_satisfies_solver_constraints/branch{k}", implies(within, sat) if ctx.symbolic else ((not within) or sat))
        N, v0, vl, vu = rec["vars"]["Pg"]
        for g in range(2):
            ctx.eq(f"dispatch_lower_bound_is_declared_minimum/gen{g}", vl[g] * base, pmin[g])
            ctx.eq(f"dispatch_upper_bound_is_declared_maximum/gen{g}", vu[g] * base, pmax[g])
    return fn


def make_branch_ratings():
    """the branch flow limit handed to the OPF (RATE_A in MVA) is the declared loading limit of the element: max_loading_percent of the
    permissible current max_i_ka * df * parallel at rated voltage (lines) resp. of sn_mva * df * parallel (transformers) - the same
    quantities res_line / res_trafo.loading_percent is measured against"""
    def fn(ctx):
        from . import c02
        from pandapower.pypower.idx_brch import RATE_A
        from pandapower.pypower.idx_bus import BASE_KV
        bb = ctx.load("pandapower.build_branch")
        net = copy.deepcopy(c02._line_net())
        net._options["mode"] = "opf"
        L = {c: ctx.var("line_" + c, lo, hi) for c, (lo, hi) in {"max_i_ka": (0.05, 2.), "df": (0.1, 1.), "parallel": (1., 4.), "max_loading_percent": (10., 150.)}.items()}
        for c, v in L.items():
            setcol(ctx, net.line, c, [v])
        vn = float(net.bus.vn_kv.at[net.line.from_bus.values[0]])      # the rated voltage of the line's bus (concrete in the template)
        ppc = {"bus": ctx.obj(net._ppc["bus"]), "branch": ctx.obj(net._ppc["branch"].real), "baseMVA": net.sn_mva}
        bb._calc_line_parameter(net, ppc)
        want = L["max_loading_percent"] / 100 * (L["max_i_ka"] * L["df"] * L["parallel"]) * vn
        got = ppc["branch"][0, RATE_A]
        ctx.close("line_flow_limit_is_the_declared_share_of_the_derated_current_rating", got * got, 3 * want * want, 1e-9)
        tn = copy.deepcopy(c02._trafo_net("Ratio", "hv", "pi", True))
        tn._options["mode"] = "opf"
        T = {c: ctx.var("trafo_" + c, lo, hi) for c, (lo, hi) in {"sn_mva": (1., 400.), "df": (0.1, 1.), "parallel": (1., 3.), "max_loading_percent": (10., 150.)}.items()}
        for c, v in T.items():
            setcol(ctx, tn.trafo, c, [v])
        ppc2 = {"bus": ctx.obj(tn._ppc["bus"]), "branch": ctx.obj(tn._ppc["branch"].real), "baseMVA": tn.sn_mva}
        bb._calc_trafo_parameter(tn, ppc2)
        f, t = tn._pd2ppc_lookups["branch"]["trafo"]
        ctx.eq("transformer_flow_limit_is_the_declared_share_of_the_derated_rating", ppc2["branch"][f, RATE_A],
               T["max_loading_percent"] / 100 * T["sn_mva"] * T["df"] * T["parallel"])
    return fn


def make_dcline_aux_gens():
    """dc line in the OPF: the two auxiliary generators that stand for the terminals carry the declared reactive window of *their* terminal
    and the active power window [0, max_p_mw] in the direction of the set point - the real _add_dcline_gens (with create_gen) on symbolic limits"""
    def fn(ctx):
        aux = ctx.load("pandapower.auxiliary")
        net = pp.create_empty_network()
        b = [pp.create_bus(net, 110.) for _ in range(3)]
        pp.create_gen(net, b[2], 1., min_q_mvar=-3., max_q_mvar=3.)
        pp.create_dcline(net, b[0], b[1], p_mw=5., loss_percent=1., loss_mw=0.1, vm_from_pu=1.01, vm_to_pu=1.02)
        L = {c: ctx.var(c, -50., 50.) for c in ("min_q_from_mvar", "max_q_from_mvar", "min_q_to_mvar", "max_q_to_mvar")}
        L["max_p_mw"] = ctx.var("max_p_mw", 1., 100.)
        for c, v in L.items():
            setcol(ctx, net.dcline, c, [v])
        import pandapower.create as cr
        rows = []
        real = cr.create_gen
        cr.create_gen = lambda net_, **kw: rows.append(kw)       # contract stub: create_gen stores the keyword values in the new row
        try:
            aux._add_dcline_gens(net)
        finally:
            cr.create_gen = real
        ctx.true("two_auxiliary_generators", len(rows) == 2)
        g_to = [r for r in rows if r["bus"] == b[1]][0]
        g_from = [r for r in rows if r["bus"] == b[0]][0]
        for side, g in (("from", g_from), ("to", g_to)):
            ctx.eq(f"aux_gen_{side}_min_q_is_declared_min_q_{side}", g["min_q_mvar"], L[f"min_q_{side}_mvar"])
            ctx.eq(f"aux_gen_{side}_max_q_is_declared_max_q_{side}", g["max_q_mvar"], L[f"max_q_{side}_mvar"])
        ctx.eq("aux_gen_to_max_p_is_declared_max_p", g_to["max_p_mw"], L["max_p_mw"])
        ctx.eq("aux_gen_from_min_p_is_minus_declared_max_p", g_from["min_p_mw"], -L["max_p_mw"])
        ctx.eq("aux_gen_to_voltage_set_point", g_to["vm_pu"] * L["max_p_mw"], L["max_p_mw"] * 1.02)
        ctx.eq("aux_gen_from_voltage_set_point", g_from["vm_pu"] * L["max_p_mw"], L["max_p_mw"] * 1.01)
    return fn


def instances(tier):
    out = [Inst("limits_round_trip", make_fn(), nvars=80, samples=2, timeout_ms=60000, meta=dict(elements="ext_grid, gen x2, sgen, load, storage"))]
    out.append(Inst("dcline_auxiliary_generator_limits", make_dcline_aux_gens(), nvars=10, samples=3, meta=dict(part="dc line terminals: declared q / p windows reach the auxiliary generators")))
    out.append(Inst("branch_flow_limits", make_branch_ratings(), nvars=24, samples=3, raises=(UserWarning,), meta=dict(part="branch loading limits: RATE_A of lines and transformers")))
    lays = {"line_and_phase_shifter": [(0, 1, "l"), (1, 2, "t")], "phase_shifter_reversed": [(0, 1, "l"), (2, 1, "t")]}
    if tier == "thorough":
        lays["meshed_with_unlimited_branch"] = [(0, 1, "l"), (1, 2, "t"), (0, 2, "free")]
    for nm, lay in lays.items():
        out.append(Inst(f"dc_opf_branch_limits_{nm}", make_dc_branch_limits(lay), nvars=30, samples=3, timeout_ms=60000,
                        meta=dict(part="DC OPF branch flow constraints", layout=lay)))
    return out


LEVEL_TEXT = ("Bounded model checking of the constraint translation: the real OPF builders map the declared (symbolic) p/q/vm limits of every "
              "controllable element into the solver's box and the real result writers map any point of that box back; z3 shows every such "
              "point satisfies the declared limits within the OPF tolerance and that non-controllable gens are pinned to their setpoints.")
LEVEL_NOTE = ("Trusted: PIPS returns a point inside the box it is given (generic solver contract); z3. Branch ratings are checked at the builder (RATE_A) and at the DC OPF constraint rows; optimality and the power-flow "
              "reproducibility clause are outside. Bounds: one net with one element of each controllable kind.")
