"""C16 OPF results are feasible operating points (translation of declared limits into the solver's box, and back)."""
import copy

import numpy as np

from .common import pp, Inst, setcol

PROPERTY = "C16"
LEVEL = "model_checking"
FUNCTIONS = [("pandapower.build_gen", "_build_gen_ppc"), ("pandapower.build_gen", "_build_pp_gen"), ("pandapower.build_gen", "_build_pp_ext_grid"),
             ("pandapower.build_gen", "_build_pp_pq_element"), ("pandapower.build_gen", "add_p_constraints"), ("pandapower.build_gen", "add_q_constraints"),
             ("pandapower.build_gen", "_check_gen_vm_limits"), ("pandapower.build_gen", "_enforce_controllable_vm_pu_p_mw"),
             ("pandapower.results_bus", "write_pq_results_to_element")]
STUBS = ["the interior point solver's contract: on convergence the returned point lies inside the ppc box (PMIN<=PG<=PMAX, QMIN<=QG<=QMAX, "
         "VMIN<=VM<=VMAX); the point is symbolic and constrained only by that box"]
ASSUMPTIONS = ["declared limits symbolic with min <= max; delta = 1e-10 (the repository's OPF tolerance widening)",
               "gen voltage limits inside the bus voltage limits (the documented consistent case; the inconsistent case only logs a warning)"]
OUTSIDE = ["branch loading limits (inside PIPS)", "optimality", "PowerModels", "dcline constraint row (needs the om object)",
           "'a power flow with the OPF dispatch reproduces the results' (iterative)"]
BOUNDS = {"quick": "ext_grid + 2 gens (controllable / not) + controllable sgen, load, storage; every declared p/q/vm limit symbolic", "thorough": "same"}
_NET = {}
DELTA = 1e-10


def _net():
    if "n" not in _NET:
        net = pp.create_empty_network()
        b = [pp.create_bus(net, 20., min_vm_pu=0.9, max_vm_pu=1.1) for _ in range(4)]
        pp.create_ext_grid(net, b[0], min_p_mw=-10, max_p_mw=10, min_q_mvar=-10, max_q_mvar=10)
        for k in range(3):
            pp.create_line_from_parameters(net, b[k], b[k + 1], 1., 0.1, 0.1, 10, 1., max_loading_percent=100)
        pp.create_gen(net, b[1], 0.5, vm_pu=1.0, controllable=True, min_p_mw=0, max_p_mw=1, min_q_mvar=-1, max_q_mvar=1, min_vm_pu=0.95, max_vm_pu=1.05)
        pp.create_gen(net, b[2], 0.4, vm_pu=1.01, controllable=False, min_p_mw=0, max_p_mw=1, min_q_mvar=-1, max_q_mvar=1, min_vm_pu=0.95, max_vm_pu=1.05)
        pp.create_sgen(net, b[3], 0.3, 0.1, controllable=True, min_p_mw=0, max_p_mw=1, min_q_mvar=-1, max_q_mvar=1)
        pp.create_load(net, b[3], 1., 0.5, controllable=True, min_p_mw=0, max_p_mw=2, min_q_mvar=0, max_q_mvar=1)
        pp.create_storage(net, b[3], 0.2, 1., controllable=True, min_p_mw=-1, max_p_mw=1, min_q_mvar=-1, max_q_mvar=1)
        pp.create_load(net, b[2], 0.3, 0.1)
        pp.create_poly_cost(net, 0, "ext_grid", 1.)
        try:
            pp.runopp(net, numba=False)
        except Exception:
            pass          # only the options, lookups and the ppc skeleton of the OPF conversion are needed
        from pandapower.pd2ppc import _pd2ppc
        net["_ppc"] = _pd2ppc(net)[0]
        _NET["n"] = net
    return _NET["n"]


def make_fn():
    def fn(ctx):
        bg = ctx.load("pandapower.build_gen")
        rb = ctx.load("pandapower.results_bus")
        from pandapower.pypower.idx_gen import PG, QG, PMIN, PMAX, QMIN, QMAX
        from pandapower.pypower.idx_bus import VMIN, VMAX, VM
        net = copy.deepcopy(_net())
        lim = {}
        for tab, rows in (("ext_grid", 1), ("gen", 2), ("sgen", 1), ("load", 1), ("storage", 1)):
            for q in ("p_mw", "q_mvar"):
                lo = [ctx.var(f"{tab}{r}_min_{q}", -20., 20.) for r in range(rows)]
                hi = [lo[r] + ctx.var(f"{tab}{r}_width_{q}", 0., 20.) for r in range(rows)]       # min <= max
                if tab == "load":       # the second load is not controllable
                    lo, hi = lo + [0.0], hi + [0.0]
                setcol(ctx, net[tab], f"min_{q}", lo)
                setcol(ctx, net[tab], f"max_{q}", hi)
                lim[(tab, q)] = (lo, hi)
        gp = [ctx.var(f"gen{r}_p_set", -20., 20.) for r in range(2)]
        gv = [ctx.var(f"gen{r}_vm_set", 0.96, 1.04) for r in range(2)]
        gvlo = [ctx.var(f"gen{r}_min_vm", 0.91, 1.0) for r in range(2)]
        gvhi = [ctx.var(f"gen{r}_max_vm", 1.0, 1.09) for r in range(2)]
        setcol(ctx, net.gen, "p_mw", gp)
        setcol(ctx, net.gen, "vm_pu", gv)
        setcol(ctx, net.gen, "min_vm_pu", gvlo)
        setcol(ctx, net.gen, "max_vm_pu", gvhi)
        ppc = net._ppc_opf if False else net._ppc
        ppc["bus"], ppc["gen"] = ctx.obj(ppc["bus"]), ctx.obj(ppc["gen"])
        net._options["mode"] = "opf"
        ppc["bus"][:, VMIN] = 0.9          # fresh bus rows as _build_bus_ppc writes them from net.bus.min_vm_pu / max_vm_pu
        ppc["bus"][:, VMAX] = 1.1
        bg._build_gen_ppc(net, ppc)
        lk = net._pd2ppc_lookups
        # the solver's point: anywhere inside the box
        ng = ppc["gen"].shape[0]
        for g in range(ng):
            for col, nm, lo, hi in ((PG, "pg", PMIN, PMAX), (QG, "qg", QMIN, QMAX)):
                t = ctx.var(f"{nm}{g}_pos_in_box", 0., 1.)          # any point of the box [lo, hi]
                ppc["gen"][g, col] = ppc["gen"][g, lo] + t * (ppc["gen"][g, hi] - ppc["gen"][g, lo])
        for t in ("res_sgen", "res_load", "res_storage"):
            net[t] = net[t].astype(object if ctx.symbolic else float)
        for el in ("sgen", "load", "storage"):
            rb.write_pq_results_to_element(net, ppc, el)
            for q in ("p_mw", "q_mvar"):
                lo, hi = lim[(el, q)]
                v = net["res_" + el][q].values[0]
                ctx.le(f"{el}_{q}_not_below_declared_min", lo[0] - 2 * DELTA, v)
                ctx.le(f"{el}_{q}_not_above_declared_max", v, hi[0] + 2 * DELTA)
        # gens and ext_grid: result = ppc gen row
        rows = {"ext_grid0": int(lk["ext_grid"][0]), "gen0": int(lk["gen"][0]), "gen1": int(lk["gen"][1])}
        for nm, row in rows.items():
            tab, r = nm[:-1], int(nm[-1])
            for q, col in (("p_mw", PG), ("q_mvar", QG)):
                lo, hi = lim[(tab, q)]
                if nm == "gen1" and q == "p_mw":
                    ctx.le("non_controllable_gen_keeps_p_setpoint/lower", gp[1] - 2 * DELTA, ppc["gen"][row, col])
                    ctx.le("non_controllable_gen_keeps_p_setpoint/upper", ppc["gen"][row, col], gp[1] + 2 * DELTA)
                else:
                    ctx.le(f"{nm}_{q}_not_below_declared_min", lo[r] - 2 * DELTA, ppc["gen"][row, col])
                    ctx.le(f"{nm}_{q}_not_above_declared_max", ppc["gen"][row, col], hi[r] + 2 * DELTA)
        # voltage box of the gen buses
        for r in range(2):
            gb = lk["bus"][net.gen.bus.values[r]]
            if r == 1:      # not controllable: fixed at the setpoint
                ctx.le("non_controllable_gen_bus_vmin_is_setpoint", gv[1] - 2 * DELTA, ppc["bus"][gb, VMIN])
                ctx.le("non_controllable_gen_bus_vmax_is_setpoint", ppc["bus"][gb, VMAX], gv[1] + 2 * DELTA)
            else:
                ctx.le(f"gen{r}_bus_vmin_not_below_declared_gen_min", gvlo[r], ppc["bus"][gb, VMIN] + 2 * DELTA)
                ctx.le(f"gen{r}_bus_vmax_not_above_declared_gen_max", ppc["bus"][gb, VMAX], gvhi[r] + 2 * DELTA)
    return fn


def instances(tier):
    return [Inst("limits_round_trip", make_fn(), nvars=80, samples=2, timeout_ms=60000, meta=dict(elements="ext_grid, gen x2, sgen, load, storage"))]


LEVEL_TEXT = ("Bounded model checking of the constraint translation: the real OPF builders map the declared (symbolic) p/q/vm limits of every "
              "controllable element into the solver's box and the real result writers map any point of that box back; z3 shows every such "
              "point satisfies the declared limits within the OPF tolerance and that non-controllable gens are pinned to their setpoints.")
LEVEL_NOTE = ("Trusted: PIPS returns a point inside the box it is given (generic solver contract); z3. Branch limits, optimality and the power-flow "
              "reproducibility clause are outside. Bounds: one net with one element of each controllable kind.")
