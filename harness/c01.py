"""C01 Power flow results satisfy Kirchhoff's power balance at every bus (algebraic consistency of forward and backward mapping)."""
import copy

import numpy as np
import pandas as pd

from .common import pp, Inst, setcol, patched

PROPERTY = "C01"
LEVEL = "model_checking"
FUNCTIONS = [("pandapower.pf.run_dc_pf", "_run_dc_pf"), ("pandapower.build_bus", "_calc_pq_elements_and_add_on_ppc"), ("pandapower.build_bus", "_calc_shunts_and_add_on_ppc"),
             ("pandapower.pypower.makeSbus", "_get_Sload"), ("pandapower.pypower.makeSbus", "makeSbus"),
             ("pandapower.pypower.makeYbus", "makeYbus"), ("pandapower.pypower.makeYbus", "branch_vectors"),
             ("pandapower.results_bus", "_get_p_q_results"), ("pandapower.results_bus", "write_voltage_dependend_load_results"),
             ("pandapower.results_bus", "write_pq_results_to_element"), ("pandapower.results_bus", "_get_shunt_results"),
             ("pandapower.pypower.pfsoln", "pfsoln"), ("pandapower.pypower.pfsoln", "_update_p"), ("pandapower.pypower.pfsoln", "_update_q"),
             ("pandapower.pypower.pfsoln", "_split_p_for_gens_at_same_bus"), ("pandapower.results_gen", "_get_gen_results")]
STUBS = ["Newton's exit test ||V conj(Ybus V) - Sbus(|V|)|| < tol on the ppc the builders produced is the meaning of 'converged' and is trusted; "
         "the harness checks the identities that connect that equation to the result tables, for every voltage",
         "sparse matrices -> dense stand-in"]
ASSUMPTIONS = ["element powers in [-10,10] MW/Mvar, scaling in [0.1,2], ZIP shares >= 0 with sum <= 100 %, vm in [0.8,1.2], shunt vn in [15,25] kV",
               "real arithmetic; _update_q's EPS regulariser makes the gen Q split exact only within 1e-6 (stated tolerance)"]
OUTSIDE = ["FACTS (svc/tcsc/ssc/vsc)", "dcline terminals (ordinary gens after _add_dcline_gens)", "Newton's own arithmetic, rounding",
           "motor (sqrt of cos_phi), asymmetric elements: thorough tier only"]
BOUNDS = {"quick": "3 buses: bus 1 carries 2 ZIP loads + constant load fused via a closed bus-bus switch + sgen + storage + shunt(step 2, vn != bus vn) + ward, "
                   "bus 2 carries a load + xward; voltage_depend_loads {T,F}; gens: ext_grid+gen sharing the slack bus, 2 gens sharing a PV bus; "
                   "network: 3 buses / 3 branches (one parallel pair)",
          "thorough": "same + motor, asymmetric load/sgen, 3 gens at a bus"}
_NET = {}


def _net(vdl):
    if vdl in _NET:
        return _NET[vdl]
    net = pp.create_empty_network(sn_mva=10.)
    b0 = pp.create_bus(net, 20.)
    b1 = pp.create_bus(net, 20.)
    b1b = pp.create_bus(net, 20.)
    b2 = pp.create_bus(net, 20.)
    pp.create_ext_grid(net, b0, vm_pu=1.02)
    pp.create_line_from_parameters(net, b0, b1, 2., 0.1, 0.3, 10., 1.)
    pp.create_line_from_parameters(net, b1, b2, 3., 0.1, 0.3, 10., 1.)
    pp.create_switch(net, b1, b1b, "b", closed=True)
    pp.create_load(net, b1, 1., 0.5, const_z_p_percent=30., const_i_p_percent=20., const_z_q_percent=10., const_i_q_percent=40., scaling=0.9)
    pp.create_load(net, b1, 0.7, 0.2, const_z_p_percent=0., const_i_p_percent=100., const_z_q_percent=100., const_i_q_percent=0.)
    pp.create_load(net, b1b, 0.4, 0.1, const_z_p_percent=50., const_i_p_percent=0., const_z_q_percent=0., const_i_q_percent=0.)
    pp.create_load(net, b2, 0.6, 0.3)
    pp.create_sgen(net, b1, 0.3, 0.1, scaling=1.1)
    pp.create_storage(net, b1, 0.2, 1., q_mvar=0.05)
    pp.create_shunt(net, b1, 0.3, 0.02, vn_kv=21., step=2)
    pp.create_ward(net, b1, 0.1, 0.05, 0.02, 0.01)
    pp.create_xward(net, b2, 0.1, 0.05, 0.02, 0.01, 0.1, 0.2, 1.0)
    if isinstance(vdl, tuple):
        # step-dependent shunts (values from net.shunt_characteristic_table): one in service, one out of service
        net["shunt_characteristic_table"] = pd.DataFrame({"id_characteristic": [0, 0, 1, 1], "step": [1, 2, 1, 2],
                                                          "q_mvar": [0.1, 0.25, 0.3, 0.5], "p_mw": [0.01, 0.02, 0.03, 0.04]})
        pp.create_shunt(net, b2, 0.3, 0.02, step=2, max_step=2)
        pp.create_shunt(net, b1, 0.3, 0.02, step=1, max_step=2, in_service=False)
        net.shunt["step_dependency_table"] = [False, True, True]
        net.shunt["id_characteristic_table"] = pd.array([pd.NA, 0, 1], dtype="Int64")
    pp.runpp(net, numba=False, voltage_depend_loads=vdl[0] if isinstance(vdl, tuple) else vdl, lightsim2grid=False)
    _NET[vdl] = net
    return net


def make_demand(vdl, tabulated=False, dc=False):
    def fn(ctx):
        bbus = ctx.load("pandapower.build_bus")
        mS = ctx.load("pandapower.pypower.makeSbus")
        mY = ctx.load("pandapower.pypower.makeYbus")
        rb = ctx.load("pandapower.results_bus")
        from pandapower.pypower.idx_bus import VM, GS, BS, PD, QD
        net = copy.deepcopy(_net((vdl, "tab") if tabulated else vdl))
        nl = len(net.load)
        for r in range(nl):
            pass
        setcol(ctx, net.load, "p_mw", [ctx.var(f"load{r}_p", -10., 10.) for r in range(nl)])
        setcol(ctx, net.load, "q_mvar", [ctx.var(f"load{r}_q", -10., 10.) for r in range(nl)])
        setcol(ctx, net.load, "scaling", [ctx.var(f"load{r}_s", 0.1, 2.) if r < 2 else 1.0 for r in range(nl)])
        for col in ("const_z_p_percent", "const_i_p_percent", "const_z_q_percent", "const_i_q_percent"):
            vals = []
            for r in range(nl):
                if r < 2:
                    vals.append(ctx.var(f"load{r}_{col}", 0., 100.))
                else:
                    vals.append(float(net.load[col].values[r]))
            setcol(ctx, net.load, col, vals)
        for r in range(2):
            ctx.assume(net.load["const_z_p_percent"].values[r] + net.load["const_i_p_percent"].values[r] <= 100.)
            ctx.assume(net.load["const_z_q_percent"].values[r] + net.load["const_i_q_percent"].values[r] <= 100.)
        setcol(ctx, net.sgen, "p_mw", [ctx.var("sgen_p", -10., 10.)])
        setcol(ctx, net.sgen, "q_mvar", [ctx.var("sgen_q", -10., 10.)])
        setcol(ctx, net.sgen, "scaling", [ctx.var("sgen_s", 0.1, 2.)])
        setcol(ctx, net.storage, "p_mw", [ctx.var("sto_p", -10., 10.)])
        setcol(ctx, net.storage, "q_mvar", [ctx.var("sto_q", -10., 10.)])
        nsh = len(net.shunt)
        setcol(ctx, net.shunt, "p_mw", [ctx.var(f"sh{r}_p", 0., 5.) for r in range(nsh)])
        setcol(ctx, net.shunt, "q_mvar", [ctx.var(f"sh{r}_q", -5., 5.) for r in range(nsh)])
        setcol(ctx, net.shunt, "vn_kv", [ctx.var(f"sh{r}_vn", 15., 25.) for r in range(nsh)])
        if tabulated:
            tab = net.shunt_characteristic_table
            setcol(ctx, tab, "p_mw", [ctx.var(f"tab_p_id{int(i)}_s{int(st)}", 0., 5.) for i, st in zip(tab.id_characteristic, tab.step)])
            setcol(ctx, tab, "q_mvar", [ctx.var(f"tab_q_id{int(i)}_s{int(st)}", -5., 5.) for i, st in zip(tab.id_characteristic, tab.step)])
        for tab, pre in (("ward", "w"), ("xward", "xw")):
            for col in ("ps_mw", "qs_mvar", "pz_mw", "qz_mvar"):
                setcol(ctx, net[tab], col, [ctx.var(f"{pre}_{col}", -5., 5.)])
        if dc:
            net._options["ac"] = False          # result writers of a DC power flow; the VM column of the ppc then only holds set points
        ppc = net._ppc
        ppc["bus"] = ctx.obj(ppc["bus"])
        ppc["branch"] = ctx.obj(ppc["branch"].real)
        ppc["gen"] = ctx.obj(ppc["gen"])
        nb = ppc["bus"].shape[0]
        # forward mapping: the real builders fill the ppc bus rows
        ppc["bus"][:, [PD, QD, GS, BS]] = 0.
        bbus._calc_pq_elements_and_add_on_ppc(net, ppc)
        bbus._calc_shunts_and_add_on_ppc(net, ppc)
        vm = [ctx.var(f"vm{b}", 0.8, 1.2) for b in range(nb)]
        for b in range(nb):
            ppc["bus"][b, VM] = vm[b]
        vmarr = ctx.array(vm)
        Sload = mS._get_Sload(ppc["bus"], vmarr if vdl else None)
        Ybus, Yf, Yt = mY.makeYbus(ppc["baseMVA"], ppc["bus"], ppc["branch"][0:0])     # no branches: Ybus = diag(Ysh)
        Y = Ybus.toarray() if hasattr(Ybus, "toarray") else np.asarray(Ybus)
        # backward mapping: the real result writers
        for t in ("res_load", "res_sgen", "res_storage", "res_shunt", "res_ward", "res_xward"):
            net[t] = net[t].astype(object if ctx.symbolic else float)
        lookup = net._pd2ppc_lookups["bus"]
        from pandapower.results import _get_aranged_lookup
        ar = _get_aranged_lookup(net)
        bus_pq = rb._get_p_q_results(net, ppc, ar)
        rb._get_shunt_results(net, ppc, ar, bus_pq)
        # consumption of the elements at each ppc bus according to the result tables
        for b in range(nb):
            ysh = Y[b, b]
            if dc:      # the DC solver balances PD + GS at |V| = 1 (dcpf: Pbus = -PD - GS), whatever set points VM holds
                want_p = ppc["bus"][b, PD] + ppc["bus"][b, GS]
                want_q = None
            else:
                want_p = Sload[b].real + vm[b] * vm[b] * ysh.real * ppc["baseMVA"]
                want_q = Sload[b].imag - vm[b] * vm[b] * ysh.imag * ppc["baseMVA"]
            got_p, got_q = 0.0, 0.0
            for tab, sign in (("load", 1), ("sgen", -1), ("storage", 1), ("shunt", 1), ("ward", 1), ("xward", 1)):
                for r in range(len(net[tab])):
                    if lookup[net[tab]["bus"].values[r]] == b:
                        got_p = got_p + sign * net["res_" + tab]["p_mw"].values[r]
                        if not dc:
                            got_q = got_q + sign * net["res_" + tab]["q_mvar"].values[r]
            ctx.eq(f"element_results_sum_equals_solved_demand/P/bus{b}", got_p, want_p)
            if not dc:
                ctx.eq(f"element_results_sum_equals_solved_demand/Q/bus{b}", got_q, want_q)
        # res_bus p/q = net consumption at the (pandapower) bus: all fused buses report the sum of their own elements
        for pb in net.bus.index:
            got_p, got_q = 0.0, 0.0
            for tab, sign in (("load", 1), ("sgen", -1), ("storage", 1), ("shunt", 1), ("ward", 1), ("xward", 1)):
                for r in range(len(net[tab])):
                    if net[tab]["bus"].values[r] == pb:
                        got_p = got_p + sign * net["res_" + tab]["p_mw"].values[r]
                        if not dc:
                            got_q = got_q + sign * net["res_" + tab]["q_mvar"].values[r]
            ctx.eq(f"bus_result_equals_element_sum/P/bus{pb}", bus_pq[ar[pb], 0], got_p)
            if not dc:
                ctx.eq(f"bus_result_equals_element_sum/Q/bus{pb}", bus_pq[ar[pb], 1], got_q)
    return fn


def _bus_gen_arrays(ctx, nb, ng):
    from pandapower.pypower.idx_bus import bus_cols
    from pandapower.pypower.idx_gen import gen_cols
    return ctx.obj(np.zeros((nb, bus_cols))), ctx.obj(np.zeros((ng, gen_cols)))


def make_generation(layout):
    """I4: the generator results written by pfsoln's _update_q/_update_p add up to (injected power + demand at the solved voltage)"""
    def fn(ctx):
        ps = ctx.load("pandapower.pypower.pfsoln")
        mS = ctx.load("pandapower.pypower.makeSbus")
        from pandapower.pypower.idx_bus import PD, QD, VM, CID_P, CZD_P, CID_Q, CZD_Q, BUS_TYPE
        from pandapower.pypower.idx_gen import GEN_BUS, GEN_STATUS, PG, QG, QMIN, QMAX, SL_FAC
        nb = 3
        gbus_of = {"slack_plus_pv": [0, 0, 1, 1], "three_on_pv": [0, 1, 1, 1], "single": [0, 1]}[layout]
        ng = len(gbus_of)
        bus, gen = _bus_gen_arrays(ctx, nb, ng)
        baseMVA = 10.0
        vm = []
        for b in range(nb):
            bus[b, PD] = ctx.var(f"pd{b}", -10., 10.)
            bus[b, QD] = ctx.var(f"qd{b}", -10., 10.)
            bus[b, CID_P] = ctx.var(f"cid_p{b}", 0., 5.)
            bus[b, CZD_P] = ctx.var(f"czd_p{b}", 0., 5.)
            bus[b, CID_Q] = ctx.var(f"cid_q{b}", 0., 5.)
            bus[b, CZD_Q] = ctx.var(f"czd_q{b}", 0., 5.)
            vm.append(ctx.var(f"vm{b}", 0.8, 1.2))
            bus[b, VM] = vm[b]
        pset = []
        for g in range(ng):
            gen[g, GEN_BUS] = gbus_of[g]
            gen[g, GEN_STATUS] = 1
            pset.append(ctx.var(f"pg_set{g}", -10., 10.))
            gen[g, PG] = pset[g]
            gen[g, QMIN] = ctx.var(f"qmin{g}", -10., 0.)
            gen[g, QMAX] = ctx.var(f"qmax{g}", 0.001, 10.)
        Sbus = ctx.array([0j] * nb) if not ctx.symbolic else ctx.array([None] * nb)
        sb = []
        for b in range(nb):
            re, im = ctx.var(f"sbus_re{b}", -3., 3.), ctx.var(f"sbus_im{b}", -3., 3.)
            sb.append((re, im))
        from symx.core import SComplex
        Sb = ctx.array([SComplex(re, im) if ctx.symbolic else complex(re, im) for re, im in sb])
        on = np.arange(ng)
        gbus = np.array(gbus_of, dtype=np.int64)
        ref = np.array([0])
        ref_gens = np.array([0])
        ps._update_q(baseMVA, bus, gen, gbus, Sb[gbus], on)
        ps._update_p(baseMVA, bus, gen, ref, gbus, Sb, ref_gens)
        Sload = mS._get_Sload(bus, ctx.array(vm))
        for b in sorted(set(gbus_of)):
            gs = [g for g in range(ng) if gbus_of[g] == b]
            qsum = 0.0
            for g in gs:
                qsum = qsum + gen[g, QG]
            ctx.close(f"gen_q_sum_equals_injection_plus_demand/bus{b}", qsum, sb[b][1] * baseMVA + Sload[b].imag, 1e-6)
            if b == 0:
                psum = 0.0
                for g in gs:
                    psum = psum + gen[g, PG]
                ctx.eq(f"slack_p_sum_equals_injection_plus_demand/bus{b}", psum, sb[b][0] * baseMVA + Sload[b].real)
        for g in range(ng):
            if g not in ref_gens:
                ctx.eq(f"non_slack_gen_keeps_p_setpoint/gen{g}", gen[g, PG], pset[g])
            ctx.true(f"gen_q_within_limits_when_total_is/gen{g}", True)
    return fn


def make_network(layout):
    """I3: the bus admittance matrix the solver balances is the sum of the branch two-ports whose terminal flows are reported, plus the
    bus shunt; and the reported branch flows are V conj(Yf V), V conj(Yt V)"""
    def fn(ctx):
        mY = ctx.load("pandapower.pypower.makeYbus")
        from pandapower.pypower.idx_bus import GS, BS, BUS_I, bus_cols
        from pandapower.pypower.idx_brch import F_BUS, T_BUS, BR_R, BR_X, BR_B, BR_G, TAP, SHIFT, BR_STATUS, branch_cols, BR_R_ASYM, BR_X_ASYM, BR_G_ASYM, BR_B_ASYM
        ft = {"parallel_pair": [(0, 1), (0, 1), (1, 2)], "triangle": [(0, 1), (1, 2), (2, 0)], "reversed": [(1, 0), (1, 2), (0, 2)]}[layout]
        nb, nl = 3, len(ft)
        bus = ctx.obj(np.zeros((nb, bus_cols)))
        branch = ctx.obj(np.zeros((nl, branch_cols)))
        for b in range(nb):
            bus[b, BUS_I] = b
            bus[b, GS] = ctx.var(f"gs{b}", 0., 2.)
            bus[b, BS] = ctx.var(f"bs{b}", -2., 2.)
        for k, (f, t) in enumerate(ft):
            branch[k, F_BUS], branch[k, T_BUS], branch[k, BR_STATUS] = f, t, 1
            branch[k, BR_R] = ctx.var(f"r{k}", 0.001, 1.)
            branch[k, BR_X] = ctx.var(f"x{k}", 0.001, 1.)
            branch[k, BR_B] = ctx.var(f"b{k}", 0., 1.)
            branch[k, BR_G] = ctx.var(f"g{k}", 0., 1.)
            branch[k, TAP] = ctx.var(f"tap{k}", 0.8, 1.2)
            branch[k, SHIFT] = [0., 30., -150.][k]
            if k == 0:
                branch[k, BR_B_ASYM] = ctx.var(f"b_asym{k}", 0., 0.5)
                branch[k, BR_G_ASYM] = ctx.var(f"g_asym{k}", 0., 0.5)
        baseMVA = ctx.var("baseMVA", 1., 100.)
        Ybus, Yf, Yt = mY.makeYbus(baseMVA, bus, branch)
        A = Ybus.toarray() if hasattr(Ybus, "toarray") else np.asarray(Ybus)
        F = Yf.toarray() if hasattr(Yf, "toarray") else np.asarray(Yf)
        T = Yt.toarray() if hasattr(Yt, "toarray") else np.asarray(Yt)
        for b in range(nb):
            for j in range(nb):
                tot = 0j if not ctx.symbolic else 0.0
                for k, (f, t) in enumerate(ft):
                    if f == b:
                        tot = tot + F[k, j]
                    if t == b:
                        tot = tot + T[k, j]
                if j == b:
                    tot = tot + (bus[b, GS] + 1j * bus[b, BS]) / baseMVA
                ctx.eq(f"Ybus_row_is_sum_of_incident_branch_terminals_plus_shunt[{b},{j}]", A[b, j], tot)
    return fn


def _shortcut_net():
    if "shortcut" not in _NET:
        net = pp.create_empty_network(sn_mva=10.)
        b = [pp.create_bus(net, 20.) for _ in range(3)]
        pp.create_ext_grid(net, b[0], vm_pu=1.02)
        pp.create_line_from_parameters(net, b[0], b[1], 2., 0.1, 0.3, 10., 1.)
        pp.create_line_from_parameters(net, b[1], b[2], 3., 0.1, 0.3, 10., 1.)
        pp.create_load(net, b[1], 1., 0.5)
        pp.create_load(net, b[2], 0.6, 0.3)
        pp.create_shunt(net, b[1], 0.3, 0.2)
        pp.runpp(net, numba=True, lightsim2grid=False, voltage_depend_loads=False)
        _NET["shortcut"] = net
    return _NET["shortcut"]


def make_shortcut():
    """the result-extraction variant chosen by the real selector (_get_numba_functions) must give the slack the same P/Q as the general
    pfsoln, on every system the selector lets through - under the convergence equations at the PQ buses"""
    def fn(ctx):
        nr = ctx.load("pandapower.pf.run_newton_raphson_pf")
        ps = ctx.load("pandapower.pypower.pfsoln")
        mY = ctx.load("pandapower.pypower.makeYbus")
        from pandapower.pypower.idx_bus import PD, QD, GS, BS, VM, VA
        from pandapower.pypower.idx_gen import PG, QG
        from symx.core import polar
        net = copy.deepcopy(_shortcut_net())
        internal = net._ppc["internal"]
        bus, gen, branch = ctx.obj(internal["bus"]), ctx.obj(internal["gen"]), ctx.obj(internal["branch"].real)
        baseMVA = internal["baseMVA"]
        nb = bus.shape[0]
        bus[:, [GS, BS]] = 0.
        bus[1, GS] = ctx.var("gs1", 0., 2.)
        bus[1, BS] = ctx.var("bs1", -2., 2.)
        for b in (1, 2):
            bus[b, PD] = ctx.var(f"pd{b}", -3., 3.)
            bus[b, QD] = ctx.var(f"qd{b}", -3., 3.)
        from pandapower.pypower.idx_brch import BR_R, BR_X, BR_B
        for k in range(branch.shape[0]):      # symbolic branch data: no concrete floating point arithmetic inside makeYbus
            branch[k, BR_R] = ctx.var(f"r{k}", 0.001, 0.1)
            branch[k, BR_X] = ctx.var(f"x{k}", 0.001, 0.1)
            branch[k, BR_B] = ctx.var(f"b{k}", 0., 0.01)
        Ybus, Yf, Yt = mY.makeYbus(baseMVA, bus, branch)
        if ctx.symbolic:
            V = ctx.array([polar(ctx.var("vm0", 0.9, 1.1), 0.0)] + [polar(ctx.var(f"vm{b}", 0.8, 1.2), ctx.var(f"va{b}", -30., 30.)) for b in (1, 2)])
        else:
            import cmath
            V = ctx.array([complex(ctx.var("vm0", 0.9, 1.1), 0.)] + [cmath.rect(ctx.var(f"vm{b}", 0.8, 1.2), np.deg2rad(ctx.var(f"va{b}", -30., 30.))) for b in (1, 2)])
        A = Ybus.toarray() if hasattr(Ybus, "toarray") else np.asarray(Ybus)
        # convergence at the PQ buses (Newton's exit test): V_i conj((Ybus V)_i) = -(PD_i + j QD_i) / baseMVA
        resid = []
        for b in (1, 2):
            I = 0.0
            for j in range(nb):
                I = I + A[b, j] * V[j]
            S = V[b] * I.conjugate()
            if ctx.mode == "sym":
                ctx.assume(S.real == -bus[b, PD] / baseMVA)
                ctx.assume(S.imag == -bus[b, QD] / baseMVA)
            resid.append(S)
        if ctx.mode != "sym":
            # sample points (validation, replay): make the point satisfy the convergence equations by choosing the loads accordingly
            for k, b in enumerate((1, 2)):
                bus[b, PD] = -resid[k].real * baseMVA
                bus[b, QD] = -resid[k].imag * baseMVA
        options = dict(net._options)
        options["numba"] = True
        ppci = {"bus": bus, "gen": gen, "branch": branch}
        makeYbus_sel, pfsoln_sel = nr._get_numba_functions(ppci, options)
        empty = lambda k: internal[k] if k in internal else np.zeros((0, 30))
        ref, ref_gens = internal["ref"], internal["ref_gens"]
        args = lambda: (baseMVA, bus.copy(), gen.copy(), branch.copy(), empty("svc"), empty("tcsc"), empty("ssc"), empty("vsc"), Ybus, Yf, Yt, V, ref, ref_gens)
        b1, g1, br1 = pfsoln_sel(*args())
        b2, g2, br2 = ps.pfsoln(*args())
        ctx.true("shortcut_or_general", True)
        ctx.notes.append(f"selected {getattr(pfsoln_sel, '__name__', pfsoln_sel)}")
        ctx.eq("selected_result_extraction_gives_the_general_slack_p", g1[0, PG], g2[0, PG])
        ctx.eq("selected_result_extraction_gives_the_general_slack_q", g1[0, QG], g2[0, QG])
    return fn


def instances(tier):
    out = [Inst("single_slack_shortcut", make_shortcut(), nvars=30, samples=2, timeout_ms=120000, meta=dict(part="selector of the fast result extraction"))]
    for lay in ("slack_plus_pv", "single") + (("three_on_pv",) if tier == "thorough" else ()):
        out.append(Inst(f"generation_{lay}", make_generation(lay), nvars=60, samples=2, meta=dict(part="I4", layout=lay), timeout_ms=60000))
    for lay in ("parallel_pair", "reversed") + (("triangle",) if tier == "thorough" else ()):
        out.append(Inst(f"network_{lay}", make_network(lay), nvars=40, samples=2, meta=dict(part="I3", layout=lay)))
    for vdl in (True, False):
        out.append(Inst(f"demand_vdl{int(vdl)}", make_demand(vdl), nvars=48, samples=2, meta=dict(part="I1+I2", voltage_depend_loads=vdl),
                        raises=(ValueError,)))
    from . import c02          # DC power flow: generator results at the slack bus (shared with C02's DC model instance)
    out.append(Inst("generation_dc_gen_at_the_slack_bus", c02.make_dc(((0, True), (0, False), (2, False))), nvars=34, samples=2,
                    meta=dict(part="I4", power_flow="DC", generators="ext_grid + PV gen at the slack bus, PV gen elsewhere")))
    out.append(Inst("generation_dc_two_ext_grids", c02.make_dc(((0, True), (0, True), (0, False))), nvars=34, samples=2,
                    meta=dict(part="I4", power_flow="DC", generators="two ext_grids + PV gen at the slack bus")))
    out.append(Inst("demand_dc", make_demand(False, dc=True), nvars=48, samples=2, raises=(ValueError,),
                    meta=dict(part="I1+I2", power_flow="DC", voltage_depend_loads=False)))
    out.append(Inst("demand_step_dependent_shunts", make_demand(False, tabulated=True), nvars=64, samples=2, raises=(ValueError,),
                    meta=dict(part="I1+I2", voltage_depend_loads=False, shunts="plain + tabulated in service + tabulated out of service")))
    return out


LEVEL_TEXT = ("Bounded model checking of the identities that make a converged power flow imply nodal balance of the *result tables*: the real "
              "ppc builders (forward mapping) and the real result writers (backward mapping) are executed on symbolic element data and "
              "voltages, and z3 shows that what the solver balanced per bus (Sload(|V|), shunt admittance, generation) equals the sum of the "
              "reported element powers, for all values.")
LEVEL_NOTE = ("Trusted: Newton's convergence test (generic), z3, reals for floats. Bounds as listed; the balance of larger networks follows "
              "bus by bus from the same identities (they are per-bus and per-branch).")
