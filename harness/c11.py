"""C11 Three-phase power flow is consistent with the symmetric power flow (transformation and result bookkeeping kernels)."""
import copy

import numpy as np

from .common import pp, Inst, setcol

PROPERTY = "C11"
LEVEL = "model_checking"
FUNCTIONS = [("pandapower.auxiliary", "sequence_to_phase"), ("pandapower.auxiliary", "phase_to_sequence"),
             ("pandapower.results_bus", "_get_p_q_results_3ph"), ("pandapower.results_bus", "write_pq_results_to_element_3ph"),
             ("pandapower.results_bus", "write_pq_results_to_element"), ("pandapower.pf.runpp_3ph", "_load_mapping"),
             ("pandapower.pf.runpp_3ph", "_get_elements"), ("pandapower.auxiliary", "_sum_by_group"), ("pandapower.build_branch", "_calc_y_from_dataframe")]
STUBS = ["the module constants a = exp(j 120 deg), a^2 are the module's own floating point values, read exactly; claims that pass through them carry a 1e-9 tolerance"]
ASSUMPTIONS = ["sequence / phase quantities symbolic in rectangular form with |re|,|im| <= 2; element powers symbolic; scaling in [0.1, 2]"]
OUTSIDE = ["the sequence-network iteration of runpp_3ph", "zero-sequence network building (pd2ppc_zero)", "branch results in phase quantities"]
BOUNDS = {"quick": "one 3-vector for the transformations; net with load, sgen, asymmetric_load, asymmetric_sgen on two buses for the bookkeeping", "thorough": "same"}
TOL = 1e-9
_NET = {}


def _cx(ctx, name, lim=2.):
    from symx.core import SComplex
    re, im = ctx.var(name + "_re", -lim, lim), ctx.var(name + "_im", -lim, lim)
    return SComplex(re, im) if ctx.symbolic else complex(re, im)


def _closec(ctx, name, a, b):
    ctx.close(name + ".re", a.real, b.real, TOL)
    ctx.close(name + ".im", a.imag, b.imag, TOL)


def make_transform():
    def fn(ctx):
        aux = ctx.load("pandapower.auxiliary")
        X = ctx.array([_cx(ctx, "x0"), _cx(ctx, "x1"), _cx(ctx, "x2")]).reshape(3, 1)
        Xabc = aux.sequence_to_phase(X)
        back = aux.phase_to_sequence(Xabc)
        for k in range(3):
            _closec(ctx, f"phase_to_sequence_inverts_sequence_to_phase/{k}", back[k, 0], X[k, 0])
        # purely positive sequence: equal phase magnitudes, phases rotated by -120 / +120 degrees
        V1 = _cx(ctx, "v1")
        zero = (0j if not ctx.symbolic else type(V1)(0., 0.))
        V = ctx.array([zero, V1, zero]).reshape(3, 1)
        Vabc = aux.sequence_to_phase(V)
        va, vb, vc = Vabc[0, 0], Vabc[1, 0], Vabc[2, 0]
        m1 = V1.real * V1.real + V1.imag * V1.imag
        for nm, v in (("a", va), ("b", vb), ("c", vc)):
            ctx.close(f"positive_sequence_gives_equal_phase_magnitudes/{nm}", v.real * v.real + v.imag * v.imag, m1, 1e-8)
        _closec(ctx, "phase_a_is_the_positive_sequence_voltage", va, V1)
        a = complex(-0.5, np.sqrt(3) / 2)
        _closec(ctx, "phase_b_lags_by_120_degrees", vb, V1 * a.conjugate())
        _closec(ctx, "phase_c_leads_by_120_degrees", vc, V1 * a)
    return fn


def _net(fused=False):
    if fused:
        if "f" not in _NET:
            net = copy.deepcopy(_net())
            b3 = pp.create_bus(net, 20.)
            pp.create_switch(net, 2, b3, "b", closed=True)
            pp.create_load(net, b3, 0.25, 0.05, scaling=1.3)
            pp.create_asymmetric_load(net, b3, p_a_mw=0.02, p_b_mw=0.03, p_c_mw=0.01, q_a_mvar=0.005, q_b_mvar=0.002, q_c_mvar=0.001, type="delta")
            pp.runpp_3ph(net)
            _NET["f"] = net
        return _NET["f"]
    if "n" not in _NET:
        net = pp.create_empty_network(sn_mva=10.)
        b0 = pp.create_bus(net, 20.)
        b1 = pp.create_bus(net, 20.)
        b2 = pp.create_bus(net, 20.)
        pp.create_ext_grid(net, b0, s_sc_max_mva=1000, rx_max=0.1, x0x_max=1., r0x0_max=0.1)
        for f, t in ((b0, b1), (b1, b2)):
            pp.create_line_from_parameters(net, f, t, 2., 0.1, 0.3, 10., 1., r0_ohm_per_km=0.2, x0_ohm_per_km=0.6, c0_nf_per_km=5.)
        pp.create_load(net, b1, 1., 0.5, scaling=0.9)
        pp.create_sgen(net, b1, 0.3, 0.1, scaling=1.1)
        pp.create_asymmetric_load(net, b1, p_a_mw=0.2, p_b_mw=0.3, p_c_mw=0.1, q_a_mvar=0.05, q_b_mvar=0.02, q_c_mvar=0.01, scaling=1.2)
        pp.create_asymmetric_sgen(net, b2, p_a_mw=0.1, p_b_mw=0.05, p_c_mw=0.02, q_a_mvar=0.01, q_b_mvar=0.02, q_c_mvar=0.0)
        pp.create_load(net, b2, 0.4, 0.1)
        pp.runpp_3ph(net)
        _NET["n"] = net
    return _NET["n"]


def make_bookkeeping():
    def fn(ctx):
        rb = ctx.load("pandapower.results_bus")
        from pandapower.results import _get_aranged_lookup
        net = copy.deepcopy(_net())
        S = {}
        for tab in ("load", "sgen"):
            for c, (lo, hi) in {"p_mw": (-5., 5.), "q_mvar": (-5., 5.), "scaling": (0.1, 2.)}.items():
                vals = [ctx.var(f"{tab}{r}_{c}", lo, hi) for r in range(len(net[tab]))]
                S[(tab, c)] = vals
                setcol(ctx, net[tab], c, vals)
        for tab in ("asymmetric_load", "asymmetric_sgen"):
            for c in ("p_a_mw", "p_b_mw", "p_c_mw", "q_a_mvar", "q_b_mvar", "q_c_mvar"):
                S[(tab, c)] = [ctx.var(f"{tab}_{c}", -5., 5.)]
                setcol(ctx, net[tab], c, S[(tab, c)])
            S[(tab, "scaling")] = [ctx.var(f"{tab}_scaling", 0.1, 2.)]
            setcol(ctx, net[tab], "scaling", S[(tab, "scaling")])
        for t in ("res_load_3ph", "res_sgen_3ph", "res_asymmetric_load_3ph", "res_asymmetric_sgen_3ph", "res_storage_3ph"):
            if t in net:
                net[t] = net[t].astype(object if ctx.symbolic else float)
        ar = _get_aranged_lookup(net)
        bus_pq = rb._get_p_q_results_3ph(net, ar)
        # symmetric elements: each phase carries one third of p*scaling
        for tab in ("load", "sgen"):
            for r in range(len(net[tab])):
                tot = net["res_%s_3ph" % tab]["p_mw"].values[r]
                ctx.eq(f"{tab}{r}_total_is_p_times_scaling", tot, S[(tab, "p_mw")][r] * S[(tab, "scaling")][r])
        for ph, col in (("a", 0), ("b", 2), ("c", 4)):
            for pb in net.bus.index:
                want_p, want_q = 0.0, 0.0
                for tab, sign in (("load", 1), ("sgen", -1)):
                    for r in range(len(net[tab])):
                        if net[tab].bus.values[r] == pb:
                            want_p = want_p + sign * S[(tab, "p_mw")][r] * S[(tab, "scaling")][r] / 3
                            want_q = want_q + sign * S[(tab, "q_mvar")][r] * S[(tab, "scaling")][r] / 3
                for tab, sign in (("asymmetric_load", 1), ("asymmetric_sgen", -1)):
                    if net[tab].bus.values[0] == pb:
                        want_p = want_p + sign * S[(tab, f"p_{ph}_mw")][0] * S[(tab, "scaling")][0]
                        want_q = want_q + sign * S[(tab, f"q_{ph}_mvar")][0] * S[(tab, "scaling")][0]
                ctx.eq(f"bus{pb}_phase_{ph}_p_is_sum_of_element_phase_powers", bus_pq[ar[pb], col], want_p)
                ctx.eq(f"bus{pb}_phase_{ph}_q_is_sum_of_element_phase_powers", bus_pq[ar[pb], col + 1], want_q)
        for tab in ("asymmetric_load", "asymmetric_sgen"):
            res = net["res_%s_3ph" % tab]
            for ph in "abc":
                ctx.eq(f"{tab}_phase_{ph}_result_is_own_phase_power", res[f"p_{ph}_mw"].values[0], S[(tab, f"p_{ph}_mw")][0] * S[(tab, "scaling")][0])
    return fn


def make_load_mapping(fused=False):
    """forward mapping of the three-phase solver (what is injected per bus and phase) == backward mapping of the result writer
    (what is reported per bus and phase): per-phase nodal balance of the result tables follows from the solver's balance"""
    def fn(ctx):
        r3 = ctx.load("pandapower.pf.runpp_3ph")
        rb = ctx.load("pandapower.results_bus")
        from pandapower.results import _get_aranged_lookup
        net = copy.deepcopy(_net(fused))
        net.asymmetric_load.loc[0, "type"] = "delta"
        S = {}
        for tab in ("load", "sgen"):
            for c, (lo, hi) in {"p_mw": (-5., 5.), "q_mvar": (-5., 5.), "scaling": (0.1, 2.)}.items():
                vals = [ctx.var(f"{tab}{r}_{c}", lo, hi) for r in range(len(net[tab]))]
                S[(tab, c)] = vals
                setcol(ctx, net[tab], c, vals)
        for tab in ("asymmetric_load", "asymmetric_sgen"):
            for c in ("p_a_mw", "p_b_mw", "p_c_mw", "q_a_mvar", "q_b_mvar", "q_c_mvar"):
                S[(tab, c)] = [ctx.var(f"{tab}{r}_{c}", -5., 5.) for r in range(len(net[tab]))]
                setcol(ctx, net[tab], c, S[(tab, c)])
            S[(tab, "scaling")] = [ctx.var(f"{tab}{r}_scaling", 0.1, 2.) for r in range(len(net[tab]))]
            setcol(ctx, net[tab], "scaling", S[(tab, "scaling")])
        for t in ("res_load_3ph", "res_sgen_3ph", "res_asymmetric_load_3ph", "res_asymmetric_sgen_3ph", "res_storage_3ph"):
            if t in net:
                net[t] = net[t].astype(object if ctx.symbolic else float)
        from pandapower.pypower.idx_bus import PD, QD
        ppci1 = {"bus": ctx.obj(net._ppc1["internal"]["bus"] if "internal" in net._ppc1 and "bus" in net._ppc1["internal"] else net._ppc1["bus"])}
        Sdel, Swye = r3._load_mapping(net, ppci1)
        ar = _get_aranged_lookup(net)
        bus_pq = rb._get_p_q_results_3ph(net, ar)
        lookup = net["_pd2ppc_lookups"]["bus"]
        for k, (ph, col) in enumerate((("a", 0), ("b", 2), ("c", 4))):
            # buses joined by a closed bus-bus switch are one node of the solver: its injection is the sum over the joined buses
            for node in sorted(set(int(lookup[pb]) for pb in net.bus.index)):
                members = [pb for pb in net.bus.index if int(lookup[pb]) == node]
                inj = Sdel[k, node] + Swye[k, node]
                nm = "_".join(f"bus{pb}" for pb in members)
                ctx.eq(f"solver_injection_equals_reported_bus_power/{nm}_phase_{ph}.p", inj.real, sum(bus_pq[ar[pb], col] for pb in members))
                ctx.eq(f"solver_injection_equals_reported_bus_power/{nm}_phase_{ph}.q", inj.imag, sum(bus_pq[ar[pb], col + 1] for pb in members))
    return fn


def make_trafo_magnetising():
    """the no-load branch of a transformer in the three-phase (per-phase) model is the symmetric one scaled by one real factor: conductance
    and susceptance keep their ratio (otherwise a symmetric network gives different voltages in runpp_3ph and runpp)"""
    def fn(ctx):
        bb = ctx.load("pandapower.build_branch")
        sn_t = ctx.var("sn_mva", 0.1, 100.)
        i0, nn = ctx.var("i0_percent", 0.05, 3.), ctx.var("n_pfe", 0.05, 0.95)
        pfe = i0 / 100 * sn_t * (1 - nn * nn) / (1 + nn * nn) * 1000           # pfe < i0/100*sn: a real magnetising reactance exists
        vn_lv, vn_bus = ctx.var("vn_lv_kv", 0.3, 40.), ctx.var("vn_lv_bus_kv", 0.3, 40.)
        net_sn = ctx.var("net_sn_mva", 0.1, 100.)
        df = {"vn_lv_kv": ctx.array([vn_lv]), "pfe_kw": ctx.array([pfe]), "parallel": ctx.array([ctx.var("parallel", 1., 3.)]),
              "sn_mva": ctx.array([sn_t]), "i0_percent": ctx.array([i0])}
        tap = ctx.var("lv_tap_ratio", 0.9, 1.1)
        g1, b1 = bb._calc_y_from_dataframe("pf", dict(df), ctx.array([vn_bus]), ctx.array([vn_lv * tap]), net_sn)
        g3, b3 = bb._calc_y_from_dataframe("pf_3ph", dict(df), ctx.array([vn_bus]), ctx.array([vn_lv * tap]), net_sn)
        ctx.eq("magnetising_branch_keeps_its_g_to_b_ratio_in_the_three_phase_model", g3[0] * b1[0], g1[0] * b3[0])
        ctx.true("susceptance_is_inductive_in_both_models", (b1[0] < 0) & (b3[0] < 0))
    return fn


def instances(tier):
    return [Inst("sequence_phase_transform", make_transform(), nvars=16, samples=3, meta=dict(part="transformations")),
            Inst("phase_power_bookkeeping", make_bookkeeping(), nvars=48, samples=2, meta=dict(part="per-phase results")),
            Inst("trafo_magnetising_branch_3ph", make_trafo_magnetising(), nvars=16, samples=3, meta=dict(part="transformer no-load branch: pf_3ph vs pf")),
            Inst("solver_load_mapping", make_load_mapping(), nvars=48, samples=2, meta=dict(part="per-phase injections of the solver vs reported bus powers")),
            Inst("solver_load_mapping_fused_buses", make_load_mapping(True), nvars=72, samples=2, meta=dict(part="per-phase injections of the solver vs reported bus powers", buses="two buses joined by a closed bus-bus switch, loads on both"))]


LEVEL_TEXT = ("Bounded model checking of the three-phase kernels: the real sequence_to_phase / phase_to_sequence are shown to be mutually "
              "inverse and to map a pure positive-sequence voltage onto three equal-magnitude phases rotated by 0/-120/+120 degrees (within "
              "1e-9, the constants are floats), and the real per-phase result bookkeeping is shown to give each phase one third of a symmetric "
              "element's power and the bus phase sums equal to the elements' phase powers, for all values.")
LEVEL_NOTE = ("Trusted: the sequence-network iteration of runpp_3ph (outside), numpy matmul on object arrays, z3. Narrow claim: transformation and bookkeeping only.")
