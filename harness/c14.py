"""C14 Contingency analysis reports the true extremes over all N-1 cases (aggregation kernel)."""
import itertools

import numpy as np
import pandas as pd

from .common import Inst
from symx.core import any_of, all_of, issym

PROPERTY = "C14"
LEVEL = "model_checking"
FUNCTIONS = [("pandapower.contingency.contingency", "_update_contingency_results"),
             ("pandapower.contingency.contingency", "run_contingency")]
STUBS = ["the power flow of each N-1 case is replaced by its contract: it fills res_line.loading_percent / res_bus.vm_pu with arbitrary "
         "(symbolic) values; the outaged element's own entry is the concrete value a real run produces (0.0, or NaN when the outage "
         "islands the element) - both shapes are explored"]
ASSUMPTIONS = ["loadings symbolic in [0,200] %, limits in [10,150] %, voltages in [0.8,1.2]", "all N-1 power flows converge (non-converged cases "
               "are skipped by run_contingency before aggregation: covered by the fault-schedule part)"]
OUTSIDE = ["run_contingency_ls2g (compiled lightsim2grid)", "the power flows themselves", "tdpf temperature variable (same code path as loading)"]
BOUNDS = {"quick": "3 lines, 1 bus; N-1 case lists of length 2 and 3 in 4 orders; own-outage entry 0.0 / NaN",
          "thorough": "all orders of all case subsets of 3 lines (15 lists) x own-outage shape {0.0, NaN} + trafo as second element type"}
NAN = float("nan")


def build(ctx, n, order, own_val, module="pandapower.contingency.contingency", fname="_update_contingency_results", parallel=False,
          agg_order=None, with_bus=True, nan_entries=()):
    """runs the real aggregation for the case list `order`; returns (contingency_results, L, lim, VM)"""
    cont = ctx.load(module)
    upd = getattr(cont, fname)
    lim = [ctx.var(f"lim{e}", 10., 150.) for e in range(n)]
    net = {"line": pd.DataFrame({"in_service": [True] * n, "max_loading_percent": ctx.series(lim)}),
           "res_line": pd.DataFrame({"loading_percent": ctx.series([0.0] * n)}),
           "bus": pd.DataFrame({"in_service": [True]}), "res_bus": pd.DataFrame({"vm_pu": ctx.series([1.0])})}
    cr = {"line": {"index": np.arange(n), "causes_overloading": np.zeros(n, dtype=bool),
                   "cause_element": np.empty(n, dtype=object), "cause_index": np.full(n, -99, dtype=np.int64)},
          "bus": {"index": np.array([0])}}
    rv = {"bus": ["vm_pu"], "line": ["loading_percent"]} if with_bus else {"line": ["loading_percent"]}
    L, VM = {}, {}
    packs = []
    for case in order:
        vals = []
        for e in range(n):
            if e == case:
                vals.append(own_val)
            elif (case, e) in nan_entries:
                vals.append(NAN)          # the outage islands this (in-service) element: no result in this case
            else:
                L[(case, e)] = ctx.var(f"load_c{case}_e{e}", 0., 200.)
                vals.append(L[(case, e)])
        VM[case] = ctx.var(f"vm_c{case}", 0.8, 1.2) if with_bus else 1.0
        packs.append((case, vals))
    if parallel:
        for case, vals in (packs if agg_order is None else [packs[i] for i in agg_order]):
            pr = {"line": {"loading_percent": ctx.array(vals)}, "bus": {"vm_pu": ctx.array([VM[case]])}}
            upd(net, cr, rv, nminus1=True, cause_element="line", cause_index=case, parallel_results=pr)
    else:
        for case, vals in packs:
            net["res_line"]["loading_percent"] = ctx.series(vals)
            net["res_bus"]["vm_pu"] = ctx.series([VM[case]])
            net["line"].at[case, "in_service"] = False
            try:
                upd(net, cr, rv, nminus1=True, cause_element="line", cause_index=case)
            finally:
                net["line"].at[case, "in_service"] = True
    # N-0
    n0 = [ctx.var(f"load_n0_e{e}", 0., 200.) for e in range(n)]
    vm0 = ctx.var("vm_n0", 0.8, 1.2) if with_bus else 1.0
    net["res_line"]["loading_percent"] = ctx.series(n0)
    net["res_bus"]["vm_pu"] = ctx.series([vm0])
    upd(net, cr, rv, nminus1=False)
    return cr, L, lim, VM, n0, vm0


def _is_max(ctx, name, got, cands):
    """got == max(cands): got >= every candidate and equal to one of them"""
    if not cands:
        ctx.true(name + "/nan_when_no_case", isinstance(got, float) and got != got)
        return
    if isinstance(got, float) and got != got:
        ctx.true(name + "/not_nan", False)
        return
    ctx.true(name + "/upper_bound", all_of([got >= c for c in cands]))
    ctx.true(name + "/attained", any_of([got == c for c in cands]))


def _is_min(ctx, name, got, cands):
    if not cands:
        ctx.true(name + "/nan_when_no_case", isinstance(got, float) and got != got)
        return
    if isinstance(got, float) and got != got:
        ctx.true(name + "/not_nan", False)
        return
    ctx.true(name + "/lower_bound", all_of([got <= c for c in cands]))
    ctx.true(name + "/attained", any_of([got == c for c in cands]))


def obligations(ctx, n, order, cr, L, lim, VM, n0, vm0):
    mx, mn = cr["line"]["max_loading_percent"], cr["line"]["min_loading_percent"]
    for e in range(n):
        cands = [L[(c, e)] for c in order if (c, e) in L]
        _is_max(ctx, f"max_loading_e{e}", mx[e], cands)
        _is_min(ctx, f"min_loading_e{e}", mn[e], cands)
        if cands:
            ci = int(cr["line"]["cause_index"][e])
            ok = (ci, e) in L
            ctx.true(f"cause_index_e{e}/names_a_case_of_the_list", ok)
            if ok:
                ctx.true(f"cause_index_e{e}/produces_the_reported_max", L[(ci, e)] == mx[e])
                ctx.true(f"cause_element_e{e}", cr["line"]["cause_element"][e] == "line")
        ctx.eq(f"n0_loading_e{e}", cr["line"]["loading_percent"][e], n0[e])
    for c in range(n):
        want = any_of([L[(c, e)] > lim[e] for e in range(n) if (c, e) in L]) if c in order else False
        got = bool(cr["line"]["causes_overloading"][c])
        ctx.true(f"causes_overloading_c{c}", (want == got) if issym(want) else (bool(want) == got))
    if "max_vm_pu" in cr["bus"]:
        _is_max(ctx, "max_vm", cr["bus"]["max_vm_pu"][0], [VM[c] for c in order])
        _is_min(ctx, "min_vm", cr["bus"]["min_vm_pu"][0], [VM[c] for c in order])
        ctx.eq("n0_vm", cr["bus"]["vm_pu"][0], vm0)


def make_fn(n, order, own_val, with_bus=True, nan_entries=()):
    def fn(ctx):
        cr, L, lim, VM, n0, vm0 = build(ctx, n, order, own_val, with_bus=with_bus, nan_entries=nan_entries)
        obligations(ctx, n, order, cr, L, lim, VM, n0, vm0)
    return fn


def instances(tier):
    out = []
    n = 3
    if tier == "quick":
        orders = [(0, 1), (1, 0), (0, 1, 2), (2, 0, 1)]
    else:
        orders = [p for k in (1, 2, 3) for s in itertools.combinations(range(n), k) for p in itertools.permutations(s)]
    for order in orders:
        for own, tag in ((0.0, "own0"), (NAN, "ownNaN")):
            wb = len(order) < 3 or tier == "thorough"
            out.append(Inst(f"lines{n}_order{''.join(map(str, order))}_{tag}", make_fn(n, order, own, wb), nvars=26, samples=2, max_paths=40000,
                            meta=dict(lines=n, case_order=order, own_outage_entry=tag, with_bus=wb)))
    # an outage that islands another in-service element: that element has a NaN result in that case
    isl = [((0, 1), {(1, 2)}), ((1, 0), {(1, 2)}), ((0, 1, 2), {(2, 1)}), ((2, 0, 1), {(2, 1)})]
    if tier == "thorough":
        isl += [(o, {(o[k], (o[k] + 1) % n)}) for o in orders if len(o) >= 2 for k in range(len(o))]
    for order, nans in isl:
        for own, tag in ((0.0, "own0"), (NAN, "ownNaN")):
            wb = len(order) < 3
            nm = f"lines{n}_order{''.join(map(str, order))}_{tag}_islands{'_'.join(f'{c}{e}' for c, e in sorted(nans))}"
            out.append(Inst(nm, make_fn(n, order, own, wb, frozenset(nans)), nvars=26, samples=2, max_paths=40000,
                            meta=dict(lines=n, case_order=order, own_outage_entry=tag, with_bus=wb, nan_results=sorted(nans))))
    return out


INSTANCE_TIMEOUT_S = {"quick": 900, "thorough": 3000}
LEVEL_TEXT = ("Bounded model checking of the real aggregation kernel _update_contingency_results over symbolic per-case results: for every "
              "enumerated case list and order the solver shows max/min are the true extremes over the cases in which the element is in "
              "service, cause_index names a case of the list that attains the maximum, causes_overloading is exact and N-0 values pass through.")
LEVEL_NOTE = ("Trusted: each N-1 power flow (contract stub), numpy's float fmax/fmin semantics re-implemented NaN-faithfully in the shim "
              "(validated against the real code on every run), z3. Bounds: 3 lines, 1 bus, <= 3 cases.")
