"""C14 Contingency analysis reports the true extremes over all N-1 cases (aggregation kernel)."""
import itertools

import numpy as np
import pandas as pd

from .common import Inst
from symx.core import any_of, all_of, issym

PROPERTY = "C14"
LEVEL = "model_checking"
FUNCTIONS = [("pandapower.contingency.contingency", "_update_contingency_results"),
             ("pandapower.contingency.contingency", "run_contingency")]
STUBS = ["the power flow of each N-1 case is replaced by its contract: it fills res_line.loading_percent / res_bus.vm_pu with arbitrary "
         "(symbolic) values; the outaged element's own entry is the concrete value a real run produces (0.0, or NaN when the outage "
         "islands the element) - both shapes are explored"]
ASSUMPTIONS = ["loadings symbolic in [0,200] %, limits in [10,150] %, voltages in [0.8,1.2]", "all N-1 power flows converge (non-converged cases "
               "are skipped by run_contingency before aggregation: covered by the fault-schedule part)"]
OUTSIDE = ["result values of run_contingency_ls2g (compiled lightsim2grid; its state restore is covered by C08)", "the power flows themselves", "tdpf temperature variable (same code path as loading)"]
BOUNDS = {"quick": "3 lines, 1 bus; N-1 case lists of length 2 and 3 in 4 orders; own-outage entry 0.0 / NaN; the real run_contingency on 2 lines + trafo + trafo3w with overlapping indices, 2 case lists",
          "thorough": "all orders of all case subsets of 3 lines (15 lists) x own-outage shape {0.0, NaN} + trafo as second element type"}
NAN = float("nan")


def build(ctx, n, order, own_val, module="pandapower.contingency.contingency", fname="_update_contingency_results", parallel=False,
          agg_order=None, with_bus=True, nan_entries=()):
    """runs the real aggregation for the case list `order`; returns (contingency_results, L, lim, VM)"""
    cont = ctx.load(module)
    upd = getattr(cont, fname)
    lim = [ctx.var(f"lim{e}", 10., 150.) for e in range(n)]
    net = {"line": pd.DataFrame({"in_service": [True] * n, "max_loading_percent": ctx.series(lim)}),
           "res_line": pd.DataFrame({"loading_percent": ctx.series([0.0] * n)}),
           "bus": pd.DataFrame({"in_service": [True]}), "res_bus": pd.DataFrame({"vm_pu": ctx.series([1.0])})}
    cr = {"line": {"index": np.arange(n), "causes_overloading": np.zeros(n, dtype=bool),
                   "cause_element": np.empty(n, dtype=object), "cause_index": np.full(n, -99, dtype=np.int64)},
          "bus": {"index": np.array([0])}}
    rv = {"bus": ["vm_pu"], "line": ["loading_percent"]} if with_bus else {"line": ["loading_percent"]}
    L, VM = {}, {}
    packs = []
    for case in order:
        vals = []
        for e in range(n):
            if e == case:
                vals.append(own_val)
            elif (case, e) in nan_entries:
                vals.append(NAN)          # the outage islands this (in-service) element: no result in this case
            else:
                L[(case, e)] = ctx.var(f"load_c{case}_e{e}", 0., 200.)
                vals.append(L[(case, e)])
        VM[case] = ctx.var(f"vm_c{case}", 0.8, 1.2) if with_bus else 1.0
        packs.append((case, vals))
    if parallel:
        for case, vals in (packs if agg_order is None else [packs[i] for i in agg_order]):
            pr = {"line": {"loading_percent": ctx.array(vals)}, "bus": {"vm_pu": ctx.array([VM[case]])}}
            upd(net, cr, rv, nminus1=True, cause_element="line", cause_index=case, parallel_results=pr)
    else:
        for case, vals in packs:
            net["res_line"]["loading_percent"] = ctx.series(vals)
            net["res_bus"]["vm_pu"] = ctx.series([VM[case]])
            net["line"].at[case, "in_service"] = False
            try:
                upd(net, cr, rv, nminus1=True, cause_element="line", cause_index=case)
            finally:
                net["line"].at[case, "in_service"] = True
    # N-0
    n0 = [ctx.var(f"load_n0_e{e}", 0., 200.) for e in range(n)]
    vm0 = ctx.var("vm_n0", 0.8, 1.2) if with_bus else 1.0
    net["res_line"]["loading_percent"] = ctx.series(n0)
    net["res_bus"]["vm_pu"] = ctx.series([vm0])
    upd(net, cr, rv, nminus1=False)
    return cr, L, lim, VM, n0, vm0


def _is_max(ctx, name, got, cands):
    """got == max(cands): got >= every candidate and equal to one of them"""
    if not cands:
        ctx.true(name + "/nan_when_no_case", isinstance(got, float) and got != got)
        return
    if isinstance(got, float) and got != got:
        ctx.true(name + "/not_nan", False)
        return
    ctx.true(name + "/upper_bound", all_of([got >= c for c in cands]))
    ctx.true(name + "/attained", any_of([got == c for c in cands]))


def _is_min(ctx, name, got, cands):
    if not cands:
        ctx.true(name + "/nan_when_no_case", isinstance(got, float) and got != got)
        return
    if isinstance(got, float) and got != got:
        ctx.true(name + "/not_nan", False)
        return
    ctx.true(name + "/lower_bound", all_of([got <= c for c in cands]))
    ctx.true(name + "/attained", any_of([got == c for c in cands]))


def obligations(ctx, n, order, cr, L, lim, VM, n0, vm0):
    mx, mn = cr["line"]["max_loading_percent"], cr["line"]["min_loading_percent"]
    for e in range(n):
        cands = [L[(c, e)] for c in order if (c, e) in L]
        _is_max(ctx, f"max_loading_e{e}", mx[e], cands)
        _is_min(ctx, f"min_loading_e{e}", mn[e], cands)
        if cands:
            ci = int(cr["line"]["cause_index"][e])
            ok = (ci, e) in L
            ctx.true(f"cause_index_e{e}/names_a_case_of_the_list", ok)
            if ok:
                ctx.true(f"cause_index_e{e}/produces_the_reported_max", L[(ci, e)] == mx[e])
                ctx.true(f"cause_element_e{e}", cr["line"]["cause_element"][e] == "line")
        ctx.eq(f"n0_loading_e{e}", cr["line"]["loading_percent"][e], n0[e])
    for c in range(n):
        want = any_of([L[(c, e)] > lim[e] for e in range(n) if (c, e) in L]) if c in order else False
        got = bool(cr["line"]["causes_overloading"][c])
        ctx.true(f"causes_overloading_c{c}", (want == got) if issym(want) else (bool(want) == got))
    if "max_vm_pu" in cr["bus"]:
        _is_max(ctx, "max_vm", cr["bus"]["max_vm_pu"][0], [VM[c] for c in order])
        _is_min(ctx, "min_vm", cr["bus"]["min_vm_pu"][0], [VM[c] for c in order])
        ctx.eq("n0_vm", cr["bus"]["vm_pu"][0], vm0)


def make_fn(n, order, own_val, with_bus=True, nan_entries=()):
    def fn(ctx):
        cr, L, lim, VM, n0, vm0 = build(ctx, n, order, own_val, with_bus=with_bus, nan_entries=nan_entries)
        obligations(ctx, n, order, cr, L, lim, VM, n0, vm0)
    return fn


# ---------------------------------------------------------------- the real entry points on a net with several branch element types
_MT = {}
MT_ELEMENTS = [("line", 0), ("line", 1), ("trafo", 0), ("trafo3w", 0)]


def _mt_net():
    """lines, a transformer and a three-winding transformer whose indices overlap (line 0 / trafo 0 / trafo3w 0)"""
    if "n" not in _MT:
        from .common import pp
        net = pp.create_empty_network()
        b = [pp.create_bus(net, v) for v in (110., 110., 20., 10.)]
        pp.create_ext_grid(net, b[0])
        pp.create_line_from_parameters(net, b[0], b[1], 5., 0.1, 0.3, 10., 0.5)
        pp.create_line_from_parameters(net, b[0], b[1], 6., 0.1, 0.3, 10., 0.5)
        pp.create_transformer_from_parameters(net, b[1], b[2], 40, 110, 20, 0.3, 12, 20, 0.05)
        pp.create_transformer3w_from_parameters(net, b[0], b[2], b[3], 110, 20, 10, 40, 20, 20, 10, 10, 10, .3, .3, .3, 20, 0.05)
        pp.create_load(net, b[2], 3., 1.)
        pp.create_load(net, b[3], 1., 0.3)
        pp.runpp(net, numba=False, lightsim2grid=False)
        _MT["n"] = net
    return _MT["n"]


def run_real(ctx, cases, entry="sequential", own_val=0.0, nminus1_tables=()):
    """runs the real run_contingency / run_contingency_parallel with the power flow replaced by its contract: per case it fills the
    result tables with symbolic loadings (the outaged element's own entry as a real run leaves it)"""
    import copy
    net = copy.deepcopy(_mt_net())
    for t in ("res_line", "res_trafo", "res_trafo3w", "res_bus"):
        net[t] = net[t].astype(object if ctx.symbolic else float)
    lim = {}
    for el, i in MT_ELEMENTS:
        # one symbolic limit (line 1); the others above every possible loading, so that the overloading flags fork on one element only
        lim[(el, i)] = ctx.var(f"lim_{el}{i}", 10., 150.) if (el, i) == ("line", 1) and len(cases) <= 2 else 500.
    for el in ("line", "trafo", "trafo3w"):
        net[el]["max_loading_percent"] = ctx.series([lim[(el, i)] for e2, i in MT_ELEMENTS if e2 == el], index=net[el].index)
    for el in nminus1_tables:
        # this table (only) carries the special N-1 limit: it is the one that counts for its elements, the normal limit is far below
        for e2, i in MT_ELEMENTS:
            if e2 == el:
                lim[(e2, i)] = ctx.var(f"lim_nminus1_{e2}{i}", 10., 150.)
        net[el]["max_loading_percent"] = 1.0
        net[el]["max_loading_percent_nminus1"] = ctx.series([lim[(el, i)] for e2, i in MT_ELEMENTS if e2 == el], index=net[el].index)
    L, VM = {}, {}

    seen_out = []
    L["__seen_out__"] = seen_out

    def evaluate(net_, **kw):
        out = [(el, i) for el, i in MT_ELEMENTS if not bool(net_[el].at[i, "in_service"])]
        seen_out.append(out)
        case = out[0] if out else None
        tag = "n0" if case is None else f"{case[0]}{case[1]}"
        for el in ("line", "trafo", "trafo3w"):
            vals = []
            for e2, i in MT_ELEMENTS:
                if e2 != el:
                    continue
                if case == (e2, i):
                    vals.append(own_val)
                else:
                    key = (case, (e2, i))
                    if key not in L:
                        L[key] = ctx.var(f"load_{tag}_{e2}{i}", 0., 200.)
                    vals.append(L[key])
            net_["res_" + el]["loading_percent"] = ctx.series(vals, index=net_[el].index)
        if case not in VM:
            VM[case] = ctx.var(f"vm_{tag}", 0.8, 1.2) if len(cases) <= 2 else {None: 1.0}.get(case, 0.9 + 0.03 * len(VM))
        net_["res_bus"]["vm_pu"] = ctx.series([VM[case]] + [1.0] * (len(net_.bus) - 1), index=net_.bus.index)
    nm1 = {}
    for el, i in cases:
        nm1.setdefault(el, {"index": []})["index"].append(i)
    if entry == "sequential":
        cont = ctx.load("pandapower.contingency.contingency")
        cr = cont.run_contingency(net, nm1, contingency_evaluation_function=evaluate, raise_errors=True)
    else:
        par = ctx.load("pandapower.contingency.contingency_parallel")
        from .common import patched

        class FakePool:       # contract of multiprocessing.Pool.map: the ordered list of the worker function's returns
            def __init__(self, processes=None): pass
            def __enter__(self): return self
            def __exit__(self, *a): return False
            def map(self, f, tasks): return [f(t) for t in tasks]

        class MP:
            Pool = FakePool
            @staticmethod
            def cpu_count(): return 2
        with patched(par, mp=MP):
            cr = par.run_contingency_parallel(net, nm1, n_procs=2 if entry == "parallel" else 1, contingency_evaluation_function=evaluate, raise_errors=True)
    return net, cr, L, lim, VM


def obligations_real(ctx, cases, net, cr, L, lim, VM, label=""):
    seen = L.get("__seen_out__", [])
    ctx.true(f"{label}every_power_flow_sees_at_most_its_own_outage", all(len(o) <= 1 for o in seen))
    ctx.true(f"{label}every_case_and_the_base_case_are_evaluated", sorted(map(str, [o[0] if o else None for o in seen])) == sorted(map(str, list(cases) + [None])))
    if not all(len(o) <= 1 for o in seen) or any((None, e) not in L for e in MT_ELEMENTS):
        return
    for el in ("line", "trafo", "trafo3w"):
        ctx.true(f"{label}{el}/reported", el in cr and "max_loading_percent" in cr[el])
        if el not in cr or "max_loading_percent" not in cr[el]:
            continue
        idx = list(cr[el]["index"])
        for (e2, i) in MT_ELEMENTS:
            if e2 != el:
                continue
            r = idx.index(i)
            cands = {c: L[(c, (e2, i))] for c in cases if (c, (e2, i)) in L}
            _is_max(ctx, f"{label}max_loading/{el}{i}", cr[el]["max_loading_percent"][r], list(cands.values()))
            _is_min(ctx, f"{label}min_loading/{el}{i}", cr[el]["min_loading_percent"][r], list(cands.values()))
            if cands:
                ce, ci = cr[el]["cause_element"][r], cr[el]["cause_index"][r]
                key = (str(ce), int(ci)) if ce is not None else None
                ctx.true(f"{label}cause_names_a_case_of_the_list/{el}{i}", key in cands)
                if key in cands:
                    ctx.true(f"{label}cause_produces_the_reported_max/{el}{i}", cands[key] == cr[el]["max_loading_percent"][r])
            ctx.eq(f"{label}n0_loading/{el}{i}", cr[el]["loading_percent"][r], L[(None, (e2, i))])
            if (e2, i) in cases:
                want = any_of([L[((e2, i), other)] > lim[other] for other in MT_ELEMENTS if ((e2, i), other) in L])
                got = bool(cr[el]["causes_overloading"][r])
                ctx.true(f"{label}causes_overloading/{el}{i}", (want == got) if issym(want) else (bool(want) == got))
            # the result tables of the net carry the same values
            res = net["res_" + el]
            for col in ("max_loading_percent", "cause_index", "cause_element"):
                ctx.true(f"{label}written_to_net/{el}{i}.{col}", col in res.columns)
            if "cause_element" in res.columns and cands:
                ctx.true(f"{label}written_to_net/{el}{i}.cause_element_value", res.cause_element.at[i] == cr[el]["cause_element"][r])
    _is_max(ctx, f"{label}max_vm", cr["bus"]["max_vm_pu"][0], [VM[c] for c in cases])
    _is_min(ctx, f"{label}min_vm", cr["bus"]["min_vm_pu"][0], [VM[c] for c in cases])


def make_real(cases, own_val=0.0, nminus1_tables=()):
    def fn(ctx):
        net, cr, L, lim, VM = run_real(ctx, cases, "sequential", own_val, nminus1_tables)
        obligations_real(ctx, cases, net, cr, L, lim, VM)
    return fn


def instances(tier):
    out = []
    n = 3
    if tier == "quick":
        orders = [(0, 1), (1, 0), (0, 1, 2), (2, 0, 1)]
    else:
        orders = [p for k in (1, 2, 3) for s in itertools.combinations(range(n), k) for p in itertools.permutations(s)]
    for order in orders:
        for own, tag in ((0.0, "own0"), (NAN, "ownNaN")):
            wb = len(order) < 3 or tier == "thorough"
            out.append(Inst(f"lines{n}_order{''.join(map(str, order))}_{tag}", make_fn(n, order, own, wb), nvars=26, samples=2, max_paths=40000,
                            meta=dict(lines=n, case_order=order, own_outage_entry=tag, with_bus=wb)))
    # an outage that islands another in-service element: that element has a NaN result in that case
    isl = [((0, 1), {(1, 2)}), ((1, 0), {(1, 2)}), ((0, 1, 2), {(2, 1)}), ((2, 0, 1), {(2, 1)})]
    if tier == "thorough":
        isl += [(o, {(o[k], (o[k] + 1) % n)}) for o in orders if len(o) >= 2 for k in range(len(o))]
    for order, nans in isl:
        for own, tag in ((0.0, "own0"), (NAN, "ownNaN")):
            wb = len(order) < 3
            nm = f"lines{n}_order{''.join(map(str, order))}_{tag}_islands{'_'.join(f'{c}{e}' for c, e in sorted(nans))}"
            out.append(Inst(nm, make_fn(n, order, own, wb, frozenset(nans)), nvars=26, samples=2, max_paths=40000,
                            meta=dict(lines=n, case_order=order, own_outage_entry=tag, with_bus=wb, nan_results=sorted(nans))))
    # the real run_contingency (initialisation of the result arrays, case loop, N-0, writing to the net) on several element types
    real = [[("line", 0), ("trafo", 0), ("trafo3w", 0)], [("trafo3w", 0), ("line", 0)]]
    if tier == "thorough":
        real += [[("trafo", 0), ("line", 1), ("trafo3w", 0)]]        # (four cases: > 20 min with the cross-check, left out)
    out.append(Inst("run_contingency_nminus1_limit_in_the_trafo_table_only", make_real([("line", 0), ("trafo3w", 0)], nminus1_tables=("trafo",)), nvars=60, samples=2,
                    max_paths=60000, raises=(UserWarning,), meta=dict(entry="run_contingency", nminus1_limit_column="trafo only", cases=[["line", 0], ["trafo3w", 0]])))
    for cases in real:
        nm = "run_contingency_" + "_".join(f"{e}{i}" for e, i in cases)
        out.append(Inst(nm, make_real(cases), nvars=60, samples=2, max_paths=60000, raises=(UserWarning,),
                        meta=dict(entry="run_contingency", element_types=["line", "trafo", "trafo3w"], cases=[list(c) for c in cases])))
    return out


INSTANCE_TIMEOUT_S = {"quick": 900, "thorough": 3000}
LEVEL_TEXT = ("Bounded model checking of the real aggregation kernel _update_contingency_results over symbolic per-case results: for every "
              "enumerated case list and order the solver shows max/min are the true extremes over the cases in which the element is in "
              "service, cause_index names a case of the list that attains the maximum, causes_overloading is exact and N-0 values pass through.")
LEVEL_NOTE = ("Trusted: each N-1 power flow (contract stub; the run_contingency_* instances run the real run_contingency loop around it), numpy's float fmax/fmin semantics re-implemented NaN-faithfully in the shim "
              "(validated against the real code on every run), z3. Bounds: 3 lines, 1 bus, <= 3 cases.")
