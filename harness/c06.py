"""C06 All power flow back-ends agree (translation validation of the numba and pypower kernels)."""
import numpy as np

from .common import Inst, patched
from . import c01

PROPERTY = "C06"
LEVEL = "translation_validation"
FUNCTIONS = [("pandapower.pypower.makeYbus", "makeYbus"), ("pandapower.pf.makeYbus_numba", "makeYbus"), ("pandapower.pf.makeYbus_numba", "gen_Ybus"),
             ("pandapower.pypower.pfsoln", "pfsoln"), ("pandapower.pf.pfsoln_numba", "pfsoln"), ("pandapower.pf.pfsoln_numba", "_update_branch_flows"),
             ("pandapower.pf.pfsoln_numba", "calc_branch_flows"), ("pandapower.pf.pfsoln_numba", "pf_solution_single_slack"),
             ("pandapower.pf.run_newton_raphson_pf", "_get_numba_functions"), ("pandapower.pypower.gausspf", "gausspf"), ("pandapower.pf.run_bfswpf", "_make_bibc_bcbv"),
             ("pandapower.pf.run_bfswpf", "_makeYsh_bfsw"), ("pandapower.pf.run_bfswpf", "_bfswpf"), ("pandapower.pf.run_bfswpf", "_run_bfswpf"),
             ("pandapower.pf.run_bfswpf", "_get_bibc_bcbv"), ("pandapower.pypower.newtonpf", "_evaluate_Fx"), ("pandapower.pypower.newtonpf", "_check_for_convergence")]
STUBS = ["numba jit removed (numba's contract: the compiled function has the semantics of its Python body)", "scipy.sparse -> dense stand-in with CSR view",
         "_update_v (abs/angle of V) replaced by a no-op in both variants of pfsoln: it is the same shared function",
         "bfsw: scipy.sparse.csgraph (compiled BFS / shortest path) runs on a real csr matrix with the pattern of the stand-in (the topology is concrete); "
         "scipy.linalg.inv -> exact adjugate inverse in the fraction field; in the phase-shift instances the inner sweep _bfswpf is replaced by its "
         "contract 'returns some V' and pfsoln / result storing are captured; _import_numba_extensions_if_flag_is_true -> pypower makeYbus"]
ASSUMPTIONS = ["branch data (r, x, b, g, tap, asymmetric shunt parts) and bus shunts symbolic; shifts concrete; V symbolic in rectangular form"]
OUTSIDE = ["that gs/fdbx/fdxb/iwamoto/lightsim2grid reach the same fixed point (iterative; compiled)", "convergence of the bfsw iteration (only: a solution is a fixed point, recognised as converged; the phase-shift rotation maps solutions to solutions)",
           "bfsw with PV buses (inner Q loop), parallel branches between the same bus pair",
           "init variants", "the Jacobians (they only affect the path to the fixed point)"]
BOUNDS = {"quick": "3 buses / 3 branches: parallel pair, reversed orientation; pfsoln on 3 buses / 2 branches with 2 gens; bfsw on 4-5 buses: radial with the slack in the middle, one loop with the slack last, two islands; phase shifter in 3 radial layouts",
          "thorough": "+ triangle, + 4 branches; bfsw: + 6 more layouts incl. two meshed islands, loop behind a transformer, transformer fed from its to-side"}


def _branch_bus(ctx, ft, lean=False):
    from pandapower.pypower.idx_bus import GS, BS, BUS_I, bus_cols
    from pandapower.pypower.idx_brch import F_BUS, T_BUS, BR_R, BR_X, BR_B, BR_G, TAP, SHIFT, BR_STATUS, branch_cols, BR_G_ASYM, BR_B_ASYM
    nb, nl = 3, len(ft)
    bus = ctx.obj(np.zeros((nb, bus_cols)))
    branch = ctx.obj(np.zeros((nl, branch_cols)))
    for b in range(nb):
        bus[b, BUS_I] = b
        if not lean:
            bus[b, GS] = ctx.var(f"gs{b}", 0., 2.)
            bus[b, BS] = ctx.var(f"bs{b}", -2., 2.)
    for k, (f, t) in enumerate(ft):
        branch[k, F_BUS], branch[k, T_BUS], branch[k, BR_STATUS] = f, t, 1
        branch[k, BR_R] = ctx.var(f"r{k}", 0.001, 1.)
        branch[k, BR_X] = ctx.var(f"x{k}", 0.001, 1.)
        branch[k, BR_B] = ctx.var(f"b{k}", 0., 1.)
        branch[k, TAP] = ctx.var(f"tap{k}", 0.8, 1.2) if k != 1 else 0.0      # tap 0 means 'no transformer' in the ppc format
        branch[k, SHIFT] = [0., 30., -150., 0.][k]
        if k == 0 and not lean:
            branch[k, BR_G] = ctx.var(f"g{k}", 0., 1.)
            branch[k, BR_B_ASYM] = ctx.var(f"b_asym{k}", 0., 0.5)
            branch[k, BR_G_ASYM] = ctx.var(f"g_asym{k}", 0., 0.5)
    return bus, branch


LAYOUTS = {"parallel_pair": [(0, 1), (0, 1), (1, 2)], "reversed": [(1, 0), (1, 2), (0, 2)], "triangle": [(0, 1), (1, 2), (2, 0)],
           "four": [(0, 1), (0, 1), (1, 2), (2, 0)]}


def _dense(M):
    return M.toarray() if hasattr(M, "toarray") else np.asarray(M)


def make_ybus(layout):
    def fn(ctx):
        a = ctx.load("pandapower.pypower.makeYbus")
        b = ctx.load("pandapower.pf.makeYbus_numba")
        bus, branch = _branch_bus(ctx, LAYOUTS[layout])
        base = ctx.var("baseMVA", 1., 100.)
        Y1, F1, T1 = a.makeYbus(base, bus.copy(), branch.copy())
        Y2, F2, T2 = b.makeYbus(base, bus.copy(), branch.copy())
        for nm, M1, M2 in (("Ybus", Y1, Y2), ("Yf", F1, F2), ("Yt", T1, T2)):
            A, B = _dense(M1), _dense(M2)
            ctx.true(f"{nm}/same_shape", A.shape == B.shape)
            for i in range(A.shape[0]):
                for j in range(A.shape[1]):
                    ctx.eq(f"numba_equals_pypower/{nm}[{i},{j}]", A[i, j], B[i, j])
    return fn


def make_pfsoln():
    def fn(ctx):
        mY = ctx.load("pandapower.pypower.makeYbus")
        p1 = ctx.load("pandapower.pypower.pfsoln")
        p2 = ctx.load("pandapower.pf.pfsoln_numba")
        from symx.core import SComplex
        from pandapower.pypower.idx_bus import PD, QD
        from pandapower.pypower.idx_gen import GEN_BUS, GEN_STATUS, PG, QG, QMIN, QMAX
        from pandapower.pypower.idx_brch import PF, QF, PT, QT
        bus, branch = _branch_bus(ctx, [(0, 1), (1, 2)])
        _, gen = c01._bus_gen_arrays(ctx, 3, 2)
        for b in range(3):
            bus[b, PD] = ctx.var(f"pd{b}", -5., 5.)
            bus[b, QD] = ctx.var(f"qd{b}", -5., 5.)
        for g, gb in enumerate((0, 1)):
            gen[g, GEN_BUS], gen[g, GEN_STATUS], gen[g, QMIN], gen[g, QMAX] = gb, 1, -10., 10.
            gen[g, PG] = ctx.var(f"pg{g}", -5., 5.)
        base = 10.0
        Ybus, Yf, Yt = mY.makeYbus(base, bus, branch)
        mk = (lambda re, im: SComplex(re, im)) if ctx.symbolic else complex
        V = ctx.array([mk(ctx.var(f"vre{b}", 0.8, 1.2), ctx.var(f"vim{b}", -0.3, 0.3)) for b in range(3)])
        empty = np.zeros((0, 30))
        ref, ref_gens = np.array([0]), np.array([0])
        with patched(p1, _update_v=lambda bus_, V_: None), patched(p2, _update_v=lambda bus_, V_: None):
            b1, g1, br1 = p1.pfsoln(base, bus.copy(), gen.copy(), branch.copy(), empty, empty, empty, empty, Ybus, Yf, Yt, V, ref, ref_gens)
            b2, g2, br2 = p2.pfsoln(base, bus.copy(), gen.copy(), branch.copy(), empty, empty, empty, empty, Ybus, Yf, Yt, V, ref, ref_gens)
        for g in range(2):
            ctx.eq(f"numba_equals_pypower/gen{g}_PG", g1[g, PG], g2[g, PG])
            ctx.close(f"numba_equals_pypower/gen{g}_QG", g1[g, QG], g2[g, QG], 1e-9)
        for k in range(2):
            for nm, col in (("PF", PF), ("QF", QF), ("PT", PT), ("QT", QT)):
                ctx.eq(f"numba_equals_pypower/branch{k}_{nm}", br1[k, col], br2[k, col])
    return fn


# ---------------------------------------------------------------- backward/forward sweep
BFSW_TOPOS = {
    # name: (reference buses, [(f, t, kind)]) kind: l line, t transformer with ratio (and phase shift). A ppci keeps the bus order of the net:
    # the reference bus of an island can sit anywhere.
    "radial": ((0,), [(0, 1, "l"), (1, 2, "l"), (1, 3, "l")]),
    "radial_slack_in_the_middle": ((2,), [(0, 1, "l"), (1, 2, "l"), (2, 3, "l")]),
    "radial_trafo": ((0,), [(0, 1, "l"), (1, 2, "t"), (2, 3, "l")]),
    "radial_trafo_hv_bus_has_higher_index": ((0,), [(0, 2, "l"), (2, 1, "t"), (1, 3, "l")]),
    "radial_trafo_slack_last": ((3,), [(3, 2, "l"), (2, 1, "t"), (1, 0, "l")]),
    "radial_trafo_fed_from_its_to_side": ((0,), [(0, 1, "l"), (2, 1, "t"), (2, 3, "l")]),
    "one_loop": ((0,), [(0, 1, "l"), (1, 2, "l"), (2, 3, "l"), (3, 1, "l")]),
    "one_loop_slack_last": ((3,), [(3, 1, "l"), (1, 2, "l"), (2, 0, "l"), (0, 1, "l")]),
    "one_loop_behind_trafo": ((0,), [(0, 1, "t"), (1, 2, "l"), (2, 3, "l"), (3, 1, "l")]),
    "two_islands": ((0, 3), [(0, 1, "l"), (1, 2, "l"), (3, 4, "l")]),
    "two_islands_one_meshed": ((0, 4), [(0, 1, "l"), (1, 2, "l"), (2, 3, "l"), (3, 1, "l"), (4, 5, "t")]),
    "two_meshed_islands": ((1, 5), [(0, 1, "l"), (1, 2, "l"), (2, 0, "l"), (3, 4, "l"), (4, 5, "l"), (5, 3, "l")]),
}


def _bfsw_case(ctx, topo, shift):
    from pandapower.pypower.idx_bus import GS, BS, BUS_I, BUS_TYPE, VM, VA, bus_cols
    from pandapower.pypower.idx_brch import F_BUS, T_BUS, BR_R, BR_X, BR_B, BR_G, TAP, SHIFT, BR_STATUS, branch_cols
    from pandapower.pypower.idx_gen import GEN_BUS, GEN_STATUS, VG, gen_cols
    refs, brs = BFSW_TOPOS[topo]
    nref = len(refs)
    nb = 1 + max(max(f, t) for f, t, _ in brs)
    bus = ctx.obj(np.zeros((nb, bus_cols)))
    branch = ctx.obj(np.zeros((len(brs), branch_cols)))
    gen = ctx.obj(np.zeros((nref, gen_cols)))
    for b in range(nb):
        bus[b, BUS_I], bus[b, BUS_TYPE], bus[b, VM] = b, (3 if b in refs else 1), 1.0
        if b == max(set(range(nb)) - set(refs)):
            bus[b, GS], bus[b, BS] = ctx.var("gs", 0., 2.), ctx.var("bs", -2., 2.)
    for g in range(nref):
        gen[g, GEN_BUS], gen[g, GEN_STATUS], gen[g, VG] = refs[g], 1, 1.0
    shifts = {}
    for k, (f, t, kind) in enumerate(brs):
        branch[k, F_BUS], branch[k, T_BUS], branch[k, BR_STATUS] = f, t, 1
        branch[k, BR_R], branch[k, BR_X] = ctx.var(f"r{k}", 0.001, 1.), ctx.var(f"x{k}", 0.001, 1.)
        branch[k, BR_B] = ctx.var(f"b{k}", -0.2, 1.)
        branch[k, TAP] = 1.0
        if kind == "t":
            branch[k, TAP] = ctx.var(f"tap{k}", 0.8, 1.2)
            branch[k, BR_G] = ctx.var(f"g{k}", 0., 0.5)
            if shift:
                shifts[k] = ctx.var(f"shift{k}", -180., 180.)
                ctx.assume((shifts[k] >= 1.) | (shifts[k] <= -1.))
                branch[k, SHIFT] = shifts[k]
    return refs, bus, gen, branch


def _sym_V(ctx, nb, refs):
    from symx.core import SComplex
    mk = (lambda re, im: SComplex(re, im)) if ctx.symbolic else complex
    V = []
    for b in range(nb):
        if b in refs:
            V.append(mk(ctx.var(f"vm_ref{b}", 0.9, 1.1), 0.0 * ctx.var(f"vm_ref{b}", 0.9, 1.1)))
        else:
            V.append(mk(ctx.var(f"vre{b}", 0.8, 1.2), ctx.var(f"vim{b}", -0.3, 0.3)))
    return ctx.array(V)


def _graph_stub(mod):
    """scipy's csgraph (compiled) works on the concrete incidence structure: hand it a real csr matrix of the stand-in's pattern"""
    import scipy.sparse as sp_
    from scipy.sparse import csgraph as real

    def conv(G):
        if hasattr(G, "toarray") and not sp_.issparse(G):
            A = np.array([[0.0 if (isinstance(v, (int, float, complex)) and v == 0) else 1.0 for v in row] for row in np.asarray(G.toarray(), dtype=object)])
            return sp_.csr_matrix(A)
        return G

    class CS:
        @staticmethod
        def breadth_first_order(G, *a, **kw): return real.breadth_first_order(conv(G), *a, **kw)

        @staticmethod
        def breadth_first_tree(G, *a, **kw): return real.breadth_first_tree(conv(G), *a, **kw)

        @staticmethod
        def shortest_path(G, *a, **kw): return real.shortest_path(conv(G), *a, **kw)
    return CS


def _opts():
    return {"enforce_q_lims": False, "tolerance_mva": 1e-8, "max_iteration": 1, "voltage_depend_loads": False, "calculate_voltage_angles": True,
            "numba": False, "recycle": None}


def make_bfsw_fixed_point(topo):
    """every solution of the network equations (V symbolic, injections S = V conj(Ybus V) computed from it) is a fixed point of the real sweep:
    _make_bibc_bcbv + _makeYsh_bfsw + one iteration of _bfswpf return V itself and report convergence"""
    def fn(ctx):
        bf = ctx.load("pandapower.pf.run_bfswpf")
        mY = ctx.load("pandapower.pypower.makeYbus")
        from pandapower.pypower.idx_brch import F_BUS, T_BUS
        refs, bus, gen, branch = _bfsw_case(ctx, topo, shift=False)
        nb = bus.shape[0]
        base = 10.0
        Ybus, Yf, Yt = mY.makeYbus(base, bus, branch)
        V = _sym_V(ctx, nb, refs)
        Sbus = V * np.conj(_dense(Ybus).dot(V)) if not ctx.symbolic else V * np.array([x.conjugate() for x in _dense(Ybus).dot(V)], dtype=object)
        ref, pv, pq = np.array(refs), np.array([], dtype=np.int64), np.array([b for b in range(nb) if b not in refs])
        cs = _graph_stub(bf)
        extra = {}
        if ctx.symbolic:
            import types
            from symx import shim
            extra["sp"] = types.SimpleNamespace(linalg=types.SimpleNamespace(inv=shim.sym_inv))
        G = bf.csr_matrix((np.ones(branch.shape[0]), (np.array([int(v) for v in branch[:, F_BUS]]), np.array([int(v) for v in branch[:, T_BUS]]))), shape=(nb, nb))
        with patched(bf, csgraph=cs, **extra):
            DLF, order = bf._make_bibc_bcbv(bus, branch, G)
            Vout, converged, n_iter = bf._bfswpf(DLF, bus, gen, branch, base, Ybus, Sbus, V.copy(), ref, pv, pq, order, _opts(), VERBOSE=False)
        ctx.true("a_solution_is_recognised_as_converged", bool(converged))
        ctx.true("a_solution_needs_one_sweep", n_iter == 1)
        for b in range(nb):
            if ctx.symbolic:
                ctx.eq(f"a_solution_is_a_fixed_point_of_the_sweep/bus{b}.re", Vout[b].real, V[b].real)
                ctx.eq(f"a_solution_is_a_fixed_point_of_the_sweep/bus{b}.im", Vout[b].imag, V[b].imag)
            else:
                ctx.close(f"a_solution_is_a_fixed_point_of_the_sweep/bus{b}.re", Vout[b].real, V[b].real, 1e-7)
                ctx.close(f"a_solution_is_a_fixed_point_of_the_sweep/bus{b}.im", Vout[b].imag, V[b].imag, 1e-7)
    return fn


def make_bfsw_shift(topo):
    """_run_bfswpf solves the network without phase shifts and rotates the buses behind every phase shifter afterwards; with the inner sweep
    replaced by its contract (returns some V), the rotated vector has, in the real Ybus (with shifts), the same bus power injections and
    magnitudes as V has in the unshifted Ybus the sweep received - i.e. it solves the real network whenever V solves the unshifted one"""
    def fn(ctx):
        bf = ctx.load("pandapower.pf.run_bfswpf")
        mY = ctx.load("pandapower.pypower.makeYbus")
        refs, bus, gen, branch = _bfsw_case(ctx, topo, shift=True)
        nb = bus.shape[0]
        base = 10.0
        V = _sym_V(ctx, nb, refs)
        ppci = {"baseMVA": base, "bus": bus, "gen": gen, "branch": branch, "internal": {}}
        ref, pv, pq = np.array(refs), np.array([], dtype=np.int64), np.array([b for b in range(nb) if b not in refs])
        seen = {}

        def get_vars(ppci_):
            empty = np.zeros((0, 30))
            return (base, bus, gen, branch, empty, empty, empty, empty, ref, pv, pq, None, None, V.copy(), np.arange(len(refs)))

        def sweep(DLF, bus_, gen_, branch_, baseMVA, Ybus_noshift, Sbus, V0, ref_, pv_, pq_, order, options, **kw):
            seen["Y0"] = _dense(Ybus_noshift)
            return V.copy(), True, 1

        def pfsoln(baseMVA, bus_, gen_, branch_, svc, tcsc, ssc, vsc, Ybus, Yf, Yt, V_final, ref_, ref_gens):
            seen["Y"], seen["Vf"] = _dense(Ybus), V_final
            return bus_, gen_, branch_
        opts = _opts()
        extra = {}
        if ctx.symbolic:
            import types
            from symx import shim
            extra["sp"] = types.SimpleNamespace(linalg=types.SimpleNamespace(inv=shim.sym_inv))
        with patched(bf, csgraph=_graph_stub(bf), **extra, _get_pf_variables_from_ppci=get_vars, _bfswpf=sweep, pfsoln=pfsoln,
                     _store_results_from_pf_in_ppci=lambda ppci_, *a: ppci_, _import_numba_extensions_if_flag_is_true=lambda numba: (False, mY.makeYbus),
                     _get_Y_bus=lambda ppci_, options, makeYbus, baseMVA, bus_, branch_: (ppci_,) + tuple(makeYbus(baseMVA, bus_, branch_))):
            bf._run_bfswpf(ppci, opts, VERBOSE=False)
        ctx.true("results_written_from_the_rotated_vector", "Vf" in seen and "Y0" in seen)
        if "Vf" not in seen:
            return
        Vf = seen["Vf"]
        conj = (lambda z: z.conjugate())
        S0 = [V[b] * conj(sum(seen["Y0"][b, j] * V[j] for j in range(nb))) for b in range(nb)]
        S1 = [Vf[b] * conj(sum(seen["Y"][b, j] * Vf[j] for j in range(nb))) for b in range(nb)]
        for b in range(nb):
            if ctx.symbolic:
                ctx.eq(f"rotated_solution_has_the_same_injection/bus{b}.p", S1[b].real, S0[b].real)
                ctx.eq(f"rotated_solution_has_the_same_injection/bus{b}.q", S1[b].imag, S0[b].imag)
                ctx.eq(f"rotation_keeps_the_magnitude/bus{b}", Vf[b].real * Vf[b].real + Vf[b].imag * Vf[b].imag, V[b].real * V[b].real + V[b].imag * V[b].imag)
            else:
                ctx.close(f"rotated_solution_has_the_same_injection/bus{b}.p", S1[b].real, S0[b].real, 1e-7)
                ctx.close(f"rotated_solution_has_the_same_injection/bus{b}.q", S1[b].imag, S0[b].imag, 1e-7)
                ctx.close(f"rotation_keeps_the_magnitude/bus{b}", abs(Vf[b]) ** 2, abs(V[b]) ** 2, 1e-9)
        for b in refs:
            ctx.close(f"slack_voltage_is_not_rotated/bus{b}", Vf[b].real, V[b].real, 1e-12)
    return fn


def make_gauss_seidel_start():
    """Gauss-Seidel: when the solver accepts the start vector without a sweep it reports it as the solution - that is only in agreement with
    Newton-Raphson if every mismatch component Newton tests (P at PV and PQ buses, Q at PQ buses) is below the tolerance"""
    def fn(ctx):
        gs = ctx.load("pandapower.pypower.gausspf")
        mY = ctx.load("pandapower.pypower.makeYbus")
        from symx.core import SComplex
        bus, branch = _branch_bus(ctx, [(0, 1), (1, 2)], lean=True)
        Ybus, Yf, Yt = mY.makeYbus(10.0, bus, branch)
        mk = (lambda re, im: SComplex(re, im)) if ctx.symbolic else complex
        V0 = ctx.array([mk(ctx.var(f"vre{b}", 0.8, 1.2), ctx.var(f"vim{b}", -0.3, 0.3)) for b in range(3)])
        Sbus = ctx.array([mk(ctx.var(f"p{b}", -2., 2.), ctx.var(f"q{b}", -2., 2.)) for b in range(3)])
        tol = 0.01
        ppopt = {"PF_TOL": tol, "PF_MAX_IT_GS": 0, "VERBOSE": 0}
        ref, pv, pq = np.array([0]), np.array([1]), np.array([2])
        V, converged, it = gs.gausspf(Ybus, Sbus.copy(), V0.copy(), ref, pv, pq, ppopt)
        A = _dense(Ybus)
        mis = [V0[b] * sum(A[b, j] * V0[j] for j in range(3)).conjugate() - Sbus[b] for b in range(3)]
        if bool(converged):
            for nm, val in (("P_at_the_PV_bus", mis[1].real), ("P_at_the_PQ_bus", mis[2].real), ("Q_at_the_PQ_bus", mis[2].imag)):
                ctx.true(f"accepted_start_vector_has_small_mismatch/{nm}", (val < tol) & (val > -tol))
        else:
            ctx.true("start_vector_rejected", True)
    return fn


def instances(tier):
    out = []
    for lay in ("parallel_pair", "reversed") + (("triangle", "four") if tier == "thorough" else ()):
        out.append(Inst(f"makeYbus_{lay}", make_ybus(lay), nvars=40, samples=3, meta=dict(kernel="makeYbus", layout=lay)))
    fp = ["radial_slack_in_the_middle", "one_loop_slack_last", "two_islands"] + \
         (["radial", "one_loop", "radial_trafo", "one_loop_behind_trafo", "two_islands_one_meshed", "two_meshed_islands"] if tier == "thorough" else [])
    sh = ["radial_trafo", "radial_trafo_hv_bus_has_higher_index", "radial_trafo_slack_last"] + \
         (["radial_trafo_fed_from_its_to_side", "one_loop_behind_trafo", "two_islands_one_meshed"] if tier == "thorough" else [])
    for t in fp:
        out.append(Inst(f"bfsw_fixed_point_{t}", make_bfsw_fixed_point(t), nvars=40, samples=3, timeout_ms=60000, meta=dict(kernel="bfsw sweep", topology=t)))
    for t in sh:
        out.append(Inst(f"bfsw_phase_shift_{t}", make_bfsw_shift(t), nvars=40, samples=3, timeout_ms=60000, meta=dict(kernel="bfsw phase shift", topology=t)))
    # numba=True picks the result extraction with _get_numba_functions: whatever it picks must agree with the general pfsoln (numba=False)
    out.append(Inst("numba_result_extraction_selector", c01.make_shortcut(), nvars=30, samples=2, timeout_ms=120000,
                    meta=dict(kernel="pfsoln selector (numba on) vs general pfsoln (numba off)")))
    out.append(Inst("gauss_seidel_start_vector_test", make_gauss_seidel_start(), nvars=30, samples=3, timeout_ms=60000, meta=dict(kernel="gausspf convergence test before the first sweep")))
    out.append(Inst("pfsoln", make_pfsoln(), nvars=48, samples=3, timeout_ms=60000, meta=dict(kernel="pfsoln")))
    return out


LEVEL_TEXT = ("Translation validation between the implementations a user switches with numba=True/False: the pypower (sparse algebra) and the "
              "numba (CSR loops, jit removed) versions of makeYbus and pfsoln are executed on the same symbolic ppc data and z3 shows every entry "
              "of Ybus/Yf/Yt and every generator / branch result equal, for all values. (The selector of the single-slack shortcut is checked under C01.) "
              "Backward/forward sweep: for symbolic branch data and a symbolic solution V of the network equations the real BIBC/BCBV construction, shunt "
              "decomposition and one real sweep return V itself and report convergence (radial, weakly meshed, several islands, slack anywhere); the real "
              "phase-shift post-processing of _run_bfswpf maps every solution of the unshifted network to a vector with the same injections and magnitudes "
              "in the real (shifted) Ybus. An internal error on any of these layouts is reported as a violation and replayed.")
LEVEL_NOTE = ("Trusted: numba compiles the Python body faithfully; scipy's csgraph on the concrete topology; convergence of the iterative solvers is outside. Bounds: 3 buses, <= 4 branches (kernels); <= 6 buses, <= 6 branches, no PV bus (bfsw).")
