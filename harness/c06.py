"""C06 All power flow back-ends agree (translation validation of the numba and pypower kernels)."""
import numpy as np

from .common import Inst, patched
from . import c01

PROPERTY = "C06"
LEVEL = "translation_validation"
FUNCTIONS = [("pandapower.pypower.makeYbus", "makeYbus"), ("pandapower.pf.makeYbus_numba", "makeYbus"), ("pandapower.pf.makeYbus_numba", "gen_Ybus"),
             ("pandapower.pypower.pfsoln", "pfsoln"), ("pandapower.pf.pfsoln_numba", "pfsoln"), ("pandapower.pf.pfsoln_numba", "_update_branch_flows"),
             ("pandapower.pf.pfsoln_numba", "calc_branch_flows"), ("pandapower.pf.pfsoln_numba", "pf_solution_single_slack"),
             ("pandapower.pf.run_newton_raphson_pf", "_get_numba_functions")]
STUBS = ["numba jit removed (numba's contract: the compiled function has the semantics of its Python body)", "scipy.sparse -> dense stand-in with CSR view",
         "_update_v (abs/angle of V) replaced by a no-op in both variants of pfsoln: it is the same shared function"]
ASSUMPTIONS = ["branch data (r, x, b, g, tap, asymmetric shunt parts) and bus shunts symbolic; shifts concrete; V symbolic in rectangular form"]
OUTSIDE = ["that gs/fdbx/fdxb/bfsw/iwamoto/lightsim2grid reach the same fixed point (iterative; compiled)", "BIBC/BCBV construction of bfsw (graph code)",
           "init variants", "the Jacobians (they only affect the path to the fixed point)"]
BOUNDS = {"quick": "3 buses / 3 branches: parallel pair, reversed orientation; pfsoln on 3 buses / 2 branches with 2 gens", "thorough": "+ triangle, + 4 branches"}


def _branch_bus(ctx, ft):
    from pandapower.pypower.idx_bus import GS, BS, BUS_I, bus_cols
    from pandapower.pypower.idx_brch import F_BUS, T_BUS, BR_R, BR_X, BR_B, BR_G, TAP, SHIFT, BR_STATUS, branch_cols, BR_G_ASYM, BR_B_ASYM
    nb, nl = 3, len(ft)
    bus = ctx.obj(np.zeros((nb, bus_cols)))
    branch = ctx.obj(np.zeros((nl, branch_cols)))
    for b in range(nb):
        bus[b, BUS_I] = b
        bus[b, GS] = ctx.var(f"gs{b}", 0., 2.)
        bus[b, BS] = ctx.var(f"bs{b}", -2., 2.)
    for k, (f, t) in enumerate(ft):
        branch[k, F_BUS], branch[k, T_BUS], branch[k, BR_STATUS] = f, t, 1
        branch[k, BR_R] = ctx.var(f"r{k}", 0.001, 1.)
        branch[k, BR_X] = ctx.var(f"x{k}", 0.001, 1.)
        branch[k, BR_B] = ctx.var(f"b{k}", 0., 1.)
        branch[k, TAP] = ctx.var(f"tap{k}", 0.8, 1.2) if k != 1 else 0.0      # tap 0 means 'no transformer' in the ppc format
        branch[k, SHIFT] = [0., 30., -150., 0.][k]
        if k == 0:
            branch[k, BR_G] = ctx.var(f"g{k}", 0., 1.)
            branch[k, BR_B_ASYM] = ctx.var(f"b_asym{k}", 0., 0.5)
            branch[k, BR_G_ASYM] = ctx.var(f"g_asym{k}", 0., 0.5)
    return bus, branch


LAYOUTS = {"parallel_pair": [(0, 1), (0, 1), (1, 2)], "reversed": [(1, 0), (1, 2), (0, 2)], "triangle": [(0, 1), (1, 2), (2, 0)],
           "four": [(0, 1), (0, 1), (1, 2), (2, 0)]}


def _dense(M):
    return M.toarray() if hasattr(M, "toarray") else np.asarray(M)


def make_ybus(layout):
    def fn(ctx):
        a = ctx.load("pandapower.pypower.makeYbus")
        b = ctx.load("pandapower.pf.makeYbus_numba")
        bus, branch = _branch_bus(ctx, LAYOUTS[layout])
        base = ctx.var("baseMVA", 1., 100.)
        Y1, F1, T1 = a.makeYbus(base, bus.copy(), branch.copy())
        Y2, F2, T2 = b.makeYbus(base, bus.copy(), branch.copy())
        for nm, M1, M2 in (("Ybus", Y1, Y2), ("Yf", F1, F2), ("Yt", T1, T2)):
            A, B = _dense(M1), _dense(M2)
            ctx.true(f"{nm}/same_shape", A.shape == B.shape)
            for i in range(A.shape[0]):
                for j in range(A.shape[1]):
                    ctx.eq(f"numba_equals_pypower/{nm}[{i},{j}]", A[i, j], B[i, j])
    return fn


def make_pfsoln():
    def fn(ctx):
        mY = ctx.load("pandapower.pypower.makeYbus")
        p1 = ctx.load("pandapower.pypower.pfsoln")
        p2 = ctx.load("pandapower.pf.pfsoln_numba")
        from symx.core import SComplex
        from pandapower.pypower.idx_bus import PD, QD
        from pandapower.pypower.idx_gen import GEN_BUS, GEN_STATUS, PG, QG, QMIN, QMAX
        from pandapower.pypower.idx_brch import PF, QF, PT, QT
        bus, branch = _branch_bus(ctx, [(0, 1), (1, 2)])
        _, gen = c01._bus_gen_arrays(ctx, 3, 2)
        for b in range(3):
            bus[b, PD] = ctx.var(f"pd{b}", -5., 5.)
            bus[b, QD] = ctx.var(f"qd{b}", -5., 5.)
        for g, gb in enumerate((0, 1)):
            gen[g, GEN_BUS], gen[g, GEN_STATUS], gen[g, QMIN], gen[g, QMAX] = gb, 1, -10., 10.
            gen[g, PG] = ctx.var(f"pg{g}", -5., 5.)
        base = 10.0
        Ybus, Yf, Yt = mY.makeYbus(base, bus, branch)
        mk = (lambda re, im: SComplex(re, im)) if ctx.symbolic else complex
        V = ctx.array([mk(ctx.var(f"vre{b}", 0.8, 1.2), ctx.var(f"vim{b}", -0.3, 0.3)) for b in range(3)])
        empty = np.zeros((0, 30))
        ref, ref_gens = np.array([0]), np.array([0])
        with patched(p1, _update_v=lambda bus_, V_: None), patched(p2, _update_v=lambda bus_, V_: None):
            b1, g1, br1 = p1.pfsoln(base, bus.copy(), gen.copy(), branch.copy(), empty, empty, empty, empty, Ybus, Yf, Yt, V, ref, ref_gens)
            b2, g2, br2 = p2.pfsoln(base, bus.copy(), gen.copy(), branch.copy(), empty, empty, empty, empty, Ybus, Yf, Yt, V, ref, ref_gens)
        for g in range(2):
            ctx.eq(f"numba_equals_pypower/gen{g}_PG", g1[g, PG], g2[g, PG])
            ctx.close(f"numba_equals_pypower/gen{g}_QG", g1[g, QG], g2[g, QG], 1e-9)
        for k in range(2):
            for nm, col in (("PF", PF), ("QF", QF), ("PT", PT), ("QT", QT)):
                ctx.eq(f"numba_equals_pypower/branch{k}_{nm}", br1[k, col], br2[k, col])
    return fn


def instances(tier):
    out = []
    for lay in ("parallel_pair", "reversed") + (("triangle", "four") if tier == "thorough" else ()):
        out.append(Inst(f"makeYbus_{lay}", make_ybus(lay), nvars=40, samples=3, meta=dict(kernel="makeYbus", layout=lay)))
    out.append(Inst("pfsoln", make_pfsoln(), nvars=48, samples=3, timeout_ms=60000, meta=dict(kernel="pfsoln")))
    return out


LEVEL_TEXT = ("Translation validation between the implementations a user switches with numba=True/False: the pypower (sparse algebra) and the "
              "numba (CSR loops, jit removed) versions of makeYbus and pfsoln are executed on the same symbolic ppc data and z3 shows every entry "
              "of Ybus/Yf/Yt and every generator / branch result equal, for all values. (The selector of the single-slack shortcut is checked under C01.)")
LEVEL_NOTE = ("Trusted: numba compiles the Python body faithfully; the iterative solvers themselves are outside. Bounds: 3 buses, <= 4 branches.")
