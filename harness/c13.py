"""C13 Controller loop terminates with converged controllers and fresh results."""
import numpy as np
import pandas as pd

from .common import Inst, patched
from symx import core
from symx.core import all_of, any_of

PROPERTY = "C13"
LEVEL = "model_checking"
FUNCTIONS = [("pandapower.control.controller.trafo.DiscreteTapControl", "DiscreteTapControl.control_step"),
             ("pandapower.control.controller.trafo.DiscreteTapControl", "DiscreteTapControl.is_converged"),
             ("pandapower.control.controller.trafo.ContinuousTapControl", "ContinuousTapControl.control_step"),
             ("pandapower.control.controller.trafo.ContinuousTapControl", "ContinuousTapControl.is_converged"),
             ("pandapower.control.controller.characteristic_control", "CharacteristicControl.is_converged"),
             ("pandapower.control.run_control", "get_controller_order"), ("pandapower.control.run_control", "check_for_initial_run"), ("pandapower.control.run_control", "control_implementation"),
             ("pandapower.control.run_control", "_control_step"), ("pandapower.control.run_control", "check_final_convergence")]
STUBS = ["read_from_net / write_to_net of the tap controllers -> the symbolic pre-state (bus voltage, tap position) and a capture of what is written",
         "loop harness: controllers are nondeterministic stubs whose is_converged returns a fresh symbolic Boolean per call; control_step and the "
         "run function record themselves in a trace"]
ASSUMPTIONS = ["one inductive step from an arbitrary valid state: tap_min <= tap_pos <= tap_max (integers enumerated), vm_lower < vm_upper, vm symbolic",
               "level-wise semantics: the claim is per level (documented sequential semantics)"]
OUTSIDE = ["real power flows between steps", "the characteristic curve itself (C32)", "re-convergence of lower levels after higher levels act"]
BOUNDS = {"quick": "CharacteristicControl.is_converged for 1-2 elements; discrete/continuous step x side-sign {+1,-1} x tap position {min, mid, max}, 1-2 trafos; ordering of 3 controllers; loop with 1-2 stub controllers, max_iter 1-2",
          "thorough": "loop with max_iter 3, 3 controllers"}
TMIN, TMAX = -2, 2


def _mk(cls, coeff_sign, n, tap_sign=1):
    c = object.__new__(cls)
    c.tap_side_coeff = np.full(n, coeff_sign)
    c.tap_sign = np.full(n, tap_sign)          # sign of cos(tap_step_degree): -1 for phase shifts in (90, 270) degrees
    c.tap_min = np.full(n, TMIN)
    c.tap_max = np.full(n, TMAX)
    c.element = "trafo"
    c.element_index = np.arange(n)
    c.trafobus = np.arange(n)
    c._read_write_flag = "single_index"
    c.hunting_limit = None
    c._hunting_taps = np.full((1, n), np.nan)
    c.nothing_to_do = lambda net: False
    return c


def make_discrete(coeff_sign, taps, tap_sign=1):
    n = len(taps)
    side_coeff, coeff_sign = coeff_sign, coeff_sign * tap_sign      # the effective direction is the product (both sites of the controller)

    def fn(ctx):
        mod = ctx.load("pandapower.control.controller.trafo.DiscreteTapControl")
        c = _mk(mod.DiscreteTapControl, side_coeff, n, tap_sign)
        vm = ctx.array([ctx.var(f"vm{i}", 0.8, 1.2) for i in range(n)])
        lo = ctx.var("vm_lower", 0.9, 1.05)
        up = ctx.var("vm_upper", 0.9, 1.1)
        ctx.assume(lo + 0.001 <= up)
        c.vm_lower_pu, c.vm_upper_pu = lo, up
        state = {"tap": np.array(taps, dtype=np.int64)}
        written = {}

        def read(net, element, index, variable, flag):
            return vm.copy() if variable == "vm_pu" else state["tap"].copy()

        def write(net, element, index, variable, values, mode):
            written[variable] = np.array(values)
            state["tap"] = np.array(values)
        with patched(mod, read_from_net=read, write_to_net=write):
            conv_before = bool(c.is_converged(None))
            c.control_step(None)
            new = written.get("tap_pos", np.array(taps))
            for i in range(n):
                t0, t1 = taps[i], int(new[i])
                ctx.true(f"tap_stays_within_limits/{i}", TMIN <= t1 <= TMAX)
                ctx.true(f"moves_at_most_one_step/{i}", abs(t1 - t0) <= 1)
                low, high = vm[i] < lo, vm[i] > up
                # effective direction: with coeff*sign == +1 a higher tap lowers the controlled voltage
                down, upw = (low, high) if coeff_sign == 1 else (high, low)
                want = core.SReal.ite(down, t0 - 1 if t0 > TMIN else t0, core.SReal.ite(upw, t0 + 1 if t0 < TMAX else t0, t0)) if ctx.symbolic \
                    else (t0 - 1 if (bool(down) and t0 > TMIN) else (t0 + 1 if (bool(upw) and t0 < TMAX) else t0)) if bool(down) or bool(upw) else t0
                ctx.eq(f"steps_towards_the_band/{i}", float(t1), want)
            if conv_before:
                for i in range(n):
                    t0 = taps[i]
                    in_band = (lo < vm[i]) & (vm[i] < up)
                    low, high = vm[i] < lo, vm[i] > up
                    down, upw = (low, high) if coeff_sign == 1 else (high, low)
                    at_limit = (down & (t0 == TMIN)) | (upw & (t0 == TMAX))
                    ctx.true(f"converged_means_in_band_or_at_needed_limit/{i}", in_band | at_limit)
                    ctx.true(f"converged_controller_does_not_move/{i}", int(new[i]) == t0)
    return fn


def make_continuous(coeff_sign, tap0, tap_sign=1):
    side_coeff, coeff_sign = coeff_sign, coeff_sign * tap_sign

    def fn(ctx):
        mod = ctx.load("pandapower.control.controller.trafo.ContinuousTapControl")
        c = _mk(mod.ContinuousTapControl, side_coeff, 1, tap_sign)
        vm = ctx.array([ctx.var("vm", 0.8, 1.2)])
        vset = ctx.var("vm_set", 0.95, 1.05)
        tol = ctx.var("tol", 1e-4, 1e-2)
        step = ctx.var("tap_step_percent", 0.5, 3.)
        c.vm_set_pu, c.tol, c.tap_step_percent, c.t_nom, c.check_tap_bounds = vset, tol, step, 1.0, True
        t0 = ctx.var("tap_pos", float(TMIN), float(TMAX)) if tap0 is None else float(tap0)
        state = {"tap": ctx.array([t0])}
        written = {}
        net = {"trafo": pd.DataFrame({"tap_pos": [0.0]})}
        net = type("N", (dict,), {"__getattr__": lambda s, k: s[k]})(net)

        def read(net_, element, index, variable, flag):
            return vm.copy() if variable == "vm_pu" else state["tap"].copy()

        def write(net_, element, index, variable, values, mode):
            written[variable] = values
        with patched(mod, read_from_net=read, write_to_net=write):
            conv = bool(c.is_converged(net))
            c.tap_pos = state["tap"].copy()
            c.control_step(net)
        t1 = written["tap_pos"][0]
        ctx.le("tap_not_below_min", float(TMIN), t1)
        ctx.le("tap_not_above_max", t1, float(TMAX))
        raw = t0 + (vm[0] - vset) / step * 100 * coeff_sign
        inside = (raw >= TMIN) & (raw <= TMAX)
        if bool(inside):
            ctx.eq("unclipped_step_is_proportional_to_voltage_deviation", t1, raw)
        if conv:
            d = 1 - vset / vm[0]
            within = (d < tol) & (d > -tol)
            low, high = vm[0] < vset, vm[0] > vset
            down, upw = (low, high) if coeff_sign == 1 else (high, low)
            at_limit = (down & (t0 == TMIN)) | (upw & (t0 == TMAX))
            ctx.true("converged_means_within_tolerance_or_at_needed_limit", within | at_limit)
    return fn


def make_order(levels):
    def fn(ctx):
        rc = ctx.load("pandapower.control.run_control")
        n = len(levels)
        orders = [ctx.var(f"order{i}", 0., 10.) for i in range(n)]
        for i in range(n):
            for j in range(i + 1, n):
                ctx.assume(orders[i] != orders[j])
        ctrl = pd.DataFrame({"object": [f"c{i}" for i in range(n)], "in_service": [True] * n, "level": list(levels)})
        ctrl["order"] = ctx.series(orders)
        level_list, corder = rc.get_controller_order({}, ctrl)
        ctx.true("levels_ascending", list(level_list) == sorted(set(levels)))
        for lv, lo in zip(level_list, corder):
            names = [c for c, _ in lo]
            ctx.true(f"level{lv}/members", sorted(names) == sorted(f"c{i}" for i in range(n) if levels[i] == lv))
            for a, b in zip(names, names[1:]):
                ctx.true(f"level{lv}/ascending_order/{a}<{b}", orders[int(a[1:])] < orders[int(b[1:])])
    return fn


def make_initial_run(levels):
    """an initial power flow is run iff some controller (of any level) asks for one: otherwise controllers judge convergence on stale results"""
    def fn(ctx):
        rc = ctx.load("pandapower.control.run_control")
        n = len(levels)
        flags = [bool(ctx.var(f"initial_run{i}", 0., 1.) >= 0.5) for i in range(n)]

        class Net:
            controller = pd.DataFrame({"initial_run": flags})

        class Ctrl:
            def __init__(self, i):
                self.index = i
        order = []
        for lv in sorted(set(levels)):
            order.append([(Ctrl(i), Net) for i in range(n) if levels[i] == lv])
        got = rc.check_for_initial_run(order)
        ctx.true("initial_power_flow_iff_some_controller_asks_for_it", bool(got) == any(flags))
    return fn


def make_loop(nctrl, max_iter):
    def fn(ctx):
        rc = ctx.load("pandapower.control.run_control")
        from pandapower.auxiliary import ControllerNotConverged
        trace = []
        counter = {"k": 0}

        class Stub:
            def __init__(self, name):
                self.name = name
                self.last = None

            def level_reset(self, net):
                pass

            def is_converged(self, net):
                k = counter["k"]
                counter["k"] += 1
                v = ctx.var(f"conv{k}", 0., 1.)
                r = bool(v > 0.5)
                self.last = r
                trace.append(("is_converged", self.name, r))
                return r

            def control_step(self, net):
                trace.append(("control_step", self.name))
        ctrls = [Stub(f"c{i}") for i in range(nctrl)]
        net = {"converged": True}
        cv = {"converged": True, "check_each_level": True, "run": None, "errors": ()}

        def evaluate(net_, levelorder, ctrl_variables, **kw):
            trace.append(("run",))
            return ctrl_variables
        raised = False
        try:
            rc.control_implementation(net, [[(c, net) for c in ctrls]], cv, max_iter, evaluate_net_fct=evaluate)
        except ControllerNotConverged:
            raised = True
        if not raised:
            ctx.true("on_return_every_controller_reported_convergence_last", all(c.last is True for c in ctrls))
            steps = [i for i, t in enumerate(trace) if t[0] == "control_step"]
            runs = [i for i, t in enumerate(trace) if t[0] == "run"]
            ctx.true("a_calculation_ran_after_the_last_control_step", (not steps) or (runs and runs[-1] > steps[-1]))
        else:
            ctx.true("not_converged_is_raised_only_after_max_iter_runs", sum(1 for t in trace if t[0] == "run") > max_iter)
        ctx.true("every_step_follows_a_negative_convergence_check",
                 all(trace[i - 1] == ("is_converged", t[1], False) for i, t in enumerate(trace) if t[0] == "control_step"))
    return fn


def make_characteristic(n, applied):
    """CharacteristicControl.is_converged from an arbitrary state: it may report convergence only if the set value it has just written
    differs from the value the last power flow was computed with by less than tol - in either direction - for every element"""
    def fn(ctx):
        mod = ctx.load("pandapower.control.controller.characteristic_control")
        c = object.__new__(mod.CharacteristicControl)
        c.input_element, c.input_element_index, c.input_variable, c.read_flag = "res_bus", np.arange(n), "vm_pu", "single_index"
        c.output_element, c.output_element_index, c.output_variable, c.write_flag = "sgen", np.arange(n), "q_mvar", "single_index"
        c.characteristic_index = 0
        c.applied = applied
        tol = ctx.var("tol", 1e-6, 0.1)
        c.tol = tol
        x = ctx.array([ctx.var(f"input{i}", 0.8, 1.2) for i in range(n)])
        prev = ctx.array([ctx.var(f"previous_output{i}", -5., 5.) for i in range(n)])
        target = ctx.array([ctx.var(f"characteristic_value{i}", -5., 5.) for i in range(n)])
        written = {}

        class Net:
            class characteristic:
                class object:
                    at = {0: (lambda v: target.copy())}

        def read(net, element, index, variable, flag):
            return x.copy() if element == "res_bus" else prev.copy()

        def write(net, element, index, variable, values, mode):
            written[(element, variable)] = np.array(values)
        with patched(mod, read_from_net=read, write_to_net=write):
            conv = bool(c.is_converged(Net))
        ctx.true("writes_the_characteristic_value", ("sgen", "q_mvar") in written)
        if ("sgen", "q_mvar") in written:
            for i in range(n):
                ctx.eq(f"written_value_is_the_characteristic_value/{i}", written[("sgen", "q_mvar")][i], target[i])
        close = all_of([((target[i] - prev[i]) < tol) & ((prev[i] - target[i]) < tol) for i in range(n)]) if ctx.symbolic else \
            all(abs(target[i] - prev[i]) < tol for i in range(n))
        if conv:
            ctx.true("converged_only_if_applied", bool(applied))
            ctx.true("converged_only_if_every_output_moved_by_less_than_tol_in_either_direction", close)
        else:
            if applied:
                ctx.true("not_converged_only_if_some_output_moved_by_tol_or_more", ~close if ctx.symbolic else (not close))
    return fn


def instances(tier):
    out = []
    for cs in (1, -1):
        for taps in ((TMIN,), (0,), (TMAX,), (TMIN, TMAX)):
            out.append(Inst(f"discrete_cs{cs}_taps{'_'.join(map(str, taps))}", make_discrete(cs, taps), nvars=10, samples=3,
                            meta=dict(controller="DiscreteTapControl", coeff_sign=cs, tap_pos=taps)))
        for t0 in (TMIN, None, TMAX):
            out.append(Inst(f"continuous_cs{cs}_tap{t0}", make_continuous(cs, t0), nvars=12, samples=3,
                            meta=dict(controller="ContinuousTapControl", coeff_sign=cs, tap_pos=t0)))
        for taps in ((TMIN,), (TMAX,), (TMIN, TMAX)):        # tap changer whose phase shift reverses the voltage effect (tap_sign -1)
            out.append(Inst(f"discrete_cs{cs}_negative_tap_sign_taps{'_'.join(map(str, taps))}", make_discrete(cs, taps, -1), nvars=10, samples=3,
                            meta=dict(controller="DiscreteTapControl", coeff_sign=cs, tap_sign=-1, tap_pos=taps)))
        for t0 in (TMIN, TMAX):
            out.append(Inst(f"continuous_cs{cs}_negative_tap_sign_tap{t0}", make_continuous(cs, t0, -1), nvars=12, samples=3,
                            meta=dict(controller="ContinuousTapControl", coeff_sign=cs, tap_sign=-1, tap_pos=t0)))
    for n_, ap in ((1, True), (2, True), (1, False)):
        out.append(Inst(f"characteristic_{n_}el_applied{int(ap)}", make_characteristic(n_, ap), nvars=12, samples=3,
                        meta=dict(controller="CharacteristicControl", elements=n_, applied=ap)))
    for lv in ((0, 0), (-1, 0), (0, 1, 1)):
        out.append(Inst("initial_run_levels" + "_".join(map(str, lv)), make_initial_run(lv), nvars=8, samples=3, meta=dict(part="initial power flow decision", levels=lv)))
    out.append(Inst("order_one_level", make_order((0, 0, 0)), nvars=8, samples=3, meta=dict(levels=(0, 0, 0))))
    out.append(Inst("order_two_levels", make_order((1, 0, 1)), nvars=8, samples=3, meta=dict(levels=(1, 0, 1))))
    loops = [(1, 1), (1, 2), (2, 1), (2, 2)] + ([(2, 3), (3, 2)] if tier == "thorough" else [])
    for nc, mi in loops:
        out.append(Inst(f"loop_{nc}ctrl_maxiter{mi}", make_loop(nc, mi), nvars=40, samples=2, max_paths=20000, meta=dict(controllers=nc, max_iter=mi)))
    return out


LEVEL_TEXT = ("Bounded model checking of (i) one inductive step of the real tap controllers from an arbitrary valid state (covers histories of "
              "any length), (ii) the real get_controller_order for symbolic order values and (iii) the real control_implementation loop with "
              "nondeterministic stub controllers: on return the last convergence checks were all positive and a calculation ran after the last "
              "control step, otherwise ControllerNotConverged is raised.")
LEVEL_NOTE = ("Trusted: read_from_net/write_to_net (stubbed), the power flow between steps (stubbed run function), z3. Bounds: <= 2 trafos, "
              "<= 2(3) stub controllers, max_iter <= 2(3).")
