"""C31 Tabular tap dependency uses each transformer's own table row."""
import copy
import itertools

import numpy as np
import pandas as pd

from .common import pp, Inst, setcol

PROPERTY = "C31"
LEVEL = "model_checking"
FUNCTIONS = [("pandapower.build_branch", "_calc_tap_from_dataframe"), ("pandapower.build_branch", "_trafo_df_from_trafo3w"),
             ("pandapower.build_branch", "_calculate_3w_tap_changers"), ("pandapower.build_branch", "_get_vk_values_from_table"),
             ("pandapower.build_branch", "get_trafo_values")]
STUBS = []
ASSUMPTIONS = ["table rows carry symbolic voltage_ratio in [0.8,1.2], angle_deg in [-30,30], vk in [1,20], vkr in [0.1,1]; "
               "ids and steps are concrete and enumerated", "real arithmetic stands for floating point"]
OUTSIDE = ["the deprecated spline characteristic path (_get_vk_values)", "tap2_* second tap changer with a table"]
BOUNDS = {"quick": "2 two-winding trafos x ids in {(0,0),(0,1)} x tap positions {(-1,1),(1,-1),(0,0),(0,1)} x tap side {hv,lv}; 3W: 4 configurations of 2 trafo3w (tap side hv/mv/lv, terminal or star point, shared / different ids)",
          "thorough": "3 trafos, all id triples over {0,1}, all position triples over {-1,0,1}, both sides, mixed table/non-table"}

STEPS = (-1, 0, 1)
IDS = (0, 1)
_cache = {}


def _net(ids, pos, side, table_flags):
    key = (ids, pos, side, table_flags)
    if key in _cache:
        return _cache[key]
    net = pp.create_empty_network()
    b0 = pp.create_bus(net, 110.)
    pp.create_ext_grid(net, b0)
    for k, (i, p, tf) in enumerate(zip(ids, pos, table_flags)):
        lv = pp.create_bus(net, 20.)
        pp.create_transformer_from_parameters(net, b0, lv, 40, 110, 20, 0.3, 12, 20, 0.05, shift_degree=150, tap_side=side,
                                              tap_neutral=0, tap_min=-2, tap_max=2, tap_step_percent=1.5, tap_pos=p,
                                              tap_changer_type="Tabular" if tf else "Ratio", tap_dependency_table=tf,
                                              id_characteristic_table=i if tf else np.nan)
        pp.create_load(net, lv, 1., 0.5)
    rows = []
    for i in IDS:
        for s in STEPS:
            rows.append({"id_characteristic": i, "step": s, "voltage_ratio": 1 + 0.015 * s + 0.001 * i, "angle_deg": 0.3 * s,
                         "vk_percent": 12 + s + 0.1 * i, "vkr_percent": 0.3 + 0.01 * s, "vk_hv_percent": np.nan,
                         "vkr_hv_percent": np.nan, "vk_mv_percent": np.nan, "vkr_mv_percent": np.nan,
                         "vk_lv_percent": np.nan, "vkr_lv_percent": np.nan})
    net["trafo_characteristic_table"] = pd.DataFrame(rows)
    pp.runpp(net, numba=False, calculate_voltage_angles=True)
    _cache[key] = net
    return net


def make_fn(ids, pos, side, table_flags):
    def fn(ctx):
        bb = ctx.load("pandapower.build_branch")
        net = copy.deepcopy(_net(ids, pos, side, table_flags))
        tab = net.trafo_characteristic_table
        rng = {"voltage_ratio": (0.8, 1.2), "angle_deg": (-30., 30.), "vk_percent": (1., 20.), "vkr_percent": (0.1, 1.)}
        sym = {c: {} for c in rng}
        for c, (lo, hi) in rng.items():
            vals = []
            for i, s in zip(tab.id_characteristic, tab.step):
                v = ctx.var(f"{c}_id{int(i)}_s{int(s)}", lo, hi)
                sym[c][(int(i), int(s))] = v
                vals.append(v)
            setcol(ctx, tab, c, vals)
        n = len(ids)
        vn_hv = [ctx.var(f"vn_hv{i}", 50., 150.) for i in range(n)]
        vn_lv = [ctx.var(f"vn_lv{i}", 5., 30.) for i in range(n)]
        vk0 = [ctx.var(f"vk_own{i}", 1., 20.) for i in range(n)]
        vkr0 = [ctx.var(f"vkr_own{i}", 0.1, 1.) for i in range(n)]
        setcol(ctx, net.trafo, "vn_hv_kv", vn_hv)
        setcol(ctx, net.trafo, "vn_lv_kv", vn_lv)
        setcol(ctx, net.trafo, "vk_percent", vk0)
        setcol(ctx, net.trafo, "vkr_percent", vkr0)
        net._options["calculate_voltage_angles"] = True
        net._options["mode"] = "pf"
        vnh, vnl, shift = bb._calc_tap_from_dataframe(net, net.trafo)
        vk, vkr = bb._get_vk_values_from_table(net.trafo, tab)
        for i in range(n):
            if not table_flags[i]:
                ctx.eq(f"t{i}_vk_untouched", vk[i], vk0[i])
                ctx.eq(f"t{i}_vkr_untouched", vkr[i], vkr0[i])
                continue
            key = (ids[i], pos[i])
            if side == "hv":
                ctx.eq(f"t{i}_ratio_own_row", vnh[i], vn_hv[i] * sym["voltage_ratio"][key])
                ctx.eq(f"t{i}_other_side_untouched", vnl[i], vn_lv[i])
                ctx.eq(f"t{i}_angle_own_row", shift[i], 150. + sym["angle_deg"][key])
            else:
                ctx.eq(f"t{i}_ratio_own_row", vnl[i], vn_lv[i] * sym["voltage_ratio"][key])
                ctx.eq(f"t{i}_other_side_untouched", vnh[i], vn_hv[i])
                ctx.eq(f"t{i}_angle_own_row", shift[i], 150. - sym["angle_deg"][key])
            ctx.eq(f"t{i}_vk_own_row", vk[i], sym["vk_percent"][key])
            ctx.eq(f"t{i}_vkr_own_row", vkr[i], sym["vkr_percent"][key])
    return fn


_cache3 = {}
VK3 = ["vk_hv_percent", "vkr_hv_percent", "vk_mv_percent", "vkr_mv_percent", "vk_lv_percent", "vkr_lv_percent"]


def _net3(cfg):
    """cfg: tuple of (tap_side, tap_at_star_point, id, tap_pos) per three-winding transformer"""
    if cfg in _cache3:
        return _cache3[cfg]
    net = pp.create_empty_network()
    b0 = pp.create_bus(net, 110.)
    pp.create_ext_grid(net, b0)
    for side, star, i, p in cfg:
        mv, lv = pp.create_bus(net, 20.), pp.create_bus(net, 10.)
        pp.create_transformer3w_from_parameters(net, b0, mv, lv, 110, 20, 10, 40, 25, 15, 10., 11., 12., .3, .31, .32, 20, 0.05,
                                                shift_mv_degree=0., shift_lv_degree=150., tap_side=side, tap_neutral=0, tap_min=-2, tap_max=2,
                                                tap_step_percent=1.5, tap_pos=p, tap_at_star_point=star, tap_changer_type="Tabular",
                                                tap_dependency_table=True, id_characteristic_table=i)
        pp.create_load(net, mv, 1., 0.5)
        pp.create_load(net, lv, 0.5, 0.1)
    rows = []
    for i in IDS:
        for st in STEPS:
            rows.append({"id_characteristic": i, "step": st, "voltage_ratio": 1 + 0.015 * st + 0.001 * i, "angle_deg": 0.3 * st,
                         "vk_percent": np.nan, "vkr_percent": np.nan, "vk_hv_percent": 10 + st, "vkr_hv_percent": 0.3 + 0.01 * st,
                         "vk_mv_percent": 11 + st, "vkr_mv_percent": 0.31, "vk_lv_percent": 12 + st, "vkr_lv_percent": 0.32})
    net["trafo_characteristic_table"] = pd.DataFrame(rows)
    pp.runpp(net, numba=False, calculate_voltage_angles=True)
    _cache3[cfg] = net
    return net


def make_3w(cfg):
    """three-winding transformers: the equivalent two-winding data frame (3 entries per transformer) gets, for the winding that carries the
    tap changer, the ratio and angle of the transformer's own table row - at the terminal, or inverted on the star-point side"""
    def fn(ctx):
        bb = ctx.load("pandapower.build_branch")
        net = copy.deepcopy(_net3(cfg))
        tab = net.trafo_characteristic_table
        rng = {"voltage_ratio": (0.8, 1.2), "angle_deg": (-30., 30.)}
        rng.update({c: ((1., 20.) if c.startswith("vk_") else (0.1, 1.)) for c in VK3})
        sym = {c: {} for c in rng}
        for c, (lo, hi) in rng.items():
            vals = []
            for i, st in zip(tab.id_characteristic, tab.step):
                v = ctx.var(f"{c}_id{int(i)}_s{int(st)}", lo, hi)
                sym[c][(int(i), int(st))] = v
                vals.append(v)
            setcol(ctx, tab, c, vals)
        n = len(cfg)
        vn = {w: [ctx.var(f"vn_{w}{k}", lo, hi) for k in range(n)] for w, (lo, hi) in {"hv": (50., 150.), "mv": (10., 30.), "lv": (5., 15.)}.items()}
        for w in vn:
            setcol(ctx, net.trafo3w, f"vn_{w}_kv", vn[w])
        net._options["calculate_voltage_angles"] = True
        net._options["mode"] = "pf"
        vks = bb._get_vk_values_from_table(net.trafo3w, tab, "3W")
        for k, (side, star, i, p) in enumerate(cfg):
            for c, got in zip(VK3, vks):
                ctx.eq(f"t{k}_{c}_own_row", got[k], sym[c][(i, p)])
        # ratios / angles: through the real equivalent data frame (vk columns back to numbers: they are not the subject here)
        for c in VK3:
            net.trafo3w[c] = [10., 0.3, 11., 0.31, 12., 0.32][VK3.index(c)]
            tab[c] = [10., 0.3, 11., 0.31, 12., 0.32][VK3.index(c)]
        t2 = bb._trafo_df_from_trafo3w(net)
        vnh, vnl, shift = bb._calc_tap_from_dataframe(net, t2)
        base_shift = {"hv": 0., "mv": 0., "lv": 150.}
        for k, (side, star, i, p) in enumerate(cfg):
            rho, alpha = sym["voltage_ratio"][(i, p)], sym["angle_deg"][(i, p)]
            for g, w in enumerate(("hv", "mv", "lv")):
                e = g * n + k                      # entry of T_w of transformer k
                want_h, want_l, want_s = vn["hv"][k], vn[w][k], base_shift[w]
                if w == side:
                    if not star:
                        if w == "hv":
                            want_h, want_s = want_h * rho, want_s + alpha
                        else:
                            want_l, want_s = want_l * rho, want_s - alpha
                    else:                          # tap changer at the star point: the star-point side of T_w carries 1/ratio
                        if w == "hv":
                            want_l, want_s = want_l / rho, want_s + alpha
                        else:
                            want_h, want_s = want_h / rho, want_s - alpha
                ctx.eq(f"t{k}_T{w}_hv_side_voltage", vnh[e], want_h)
                ctx.eq(f"t{k}_T{w}_lv_side_voltage", vnl[e], want_l)
                ctx.eq(f"t{k}_T{w}_shift", shift[e], want_s)
    return fn


def instances(tier):
    out = []
    if tier == "quick":
        combos = [((0, 0), p, s, (True, True)) for p in [(-1, 1), (1, -1), (0, 0), (0, 1)] for s in ("hv", "lv")]
        combos += [((0, 1), (-1, 1), "hv", (True, True)), ((0, 0), (1, -1), "lv", (True, False)),
                   ((0, 0), (1, -1), "hv", (False, True)), ((0, 1), (-1, 1), "lv", (False, True))]
    else:
        combos = []
        for ids in itertools.product(IDS, repeat=3):
            for pos in itertools.product(STEPS, repeat=3):
                if ids[0] > ids[1]:
                    continue
                for s in ("hv", "lv"):
                    combos.append((ids, pos, s, (True, True, True)))
        combos += [((0, 0, 0), p, s, f) for p in [(-1, 1, 0), (1, 1, -1)] for s in ("hv", "lv")
                   for f in [(True, False, True), (False, True, True)]]
    cfgs = [(("hv", False, 0, 1), ("mv", True, 0, -1)), (("mv", True, 0, 1), ("hv", False, 0, -1)), (("hv", True, 0, 1), ("lv", False, 1, 1)),
            (("lv", True, 0, -1), ("mv", False, 0, 1))]
    if tier == "thorough":
        cfgs += [(("hv", False, 0, 1), ("mv", True, 0, -1), ("hv", True, 1, 0)), (("lv", False, 0, 1), ("mv", True, 0, -1), ("hv", False, 0, 0)),
                 (("mv", False, 1, 1), ("mv", True, 1, -1)), (("hv", True, 0, 1), ("hv", False, 0, -1), ("lv", True, 0, 1))]
    for cfg in cfgs:
        name = "3w_" + "_".join(f"{sd}{'star' if st else 'term'}id{i}pos{p}" for sd, st, i, p in cfg)
        out.append(Inst(name, make_3w(cfg), nvars=60, samples=2, raises=(UserWarning, DeprecationWarning), meta=dict(kind="trafo3w", config=[list(c) for c in cfg])))
    for ids, pos, side, flags in combos:
        name = f"2w_ids{''.join(map(str, ids))}_pos{'_'.join(map(str, pos))}_{side}_tab{''.join('1' if f else '0' for f in flags)}"
        out.append(Inst(name, make_fn(ids, pos, side, flags), nvars=24 + 4 * len(ids) + 2,
                        meta=dict(ids=ids, tap_pos=pos, tap_side=side, table=flags), samples=2))
    return out

LEVEL_TEXT = ("Bounded model checking of the real table-lookup code: _calc_tap_from_dataframe and _get_vk_values_from_table are "
              "executed on tables whose characteristic rows are symbolic; for every enumerated assignment of ids/tap positions/"
              "sides the solver shows each transformer receives exactly the symbols of its own (id, step) row, for all row values.")
LEVEL_NOTE = ("Trusted: pandas merge/indexing on concrete keys, z3, sympy normalisation; reals for floats. Bounds: <= 3 trafos, ids {0,1}, "
              "steps {-1,0,1}; larger tables are outside the claim.")
