"""C33 DER controller setpoints stay within the declared capability."""
import numpy as np
import pandas as pd

from .common import Inst
from symx.core import all_of

PROPERTY = "C33"
LEVEL = "model_checking"
FUNCTIONS = [("pandapower.control.controller.DERController.der_control", "DERController._saturate"),
             ("pandapower.control.controller.DERController.der_control", "DERController._saturate_sn_mva_step"),
             ("pandapower.control.controller.DERController.PQVAreas", "BasePQVArea.q_flexibility"),
             ("pandapower.control.controller.DERController.PQVAreas", "BasePQVArea.in_area"),
             ("pandapower.control.controller.DERController.PQVAreas", "PQArea4120.in_area"),
             ("pandapower.control.controller.DERController.PQVAreas", "PQArea4120.q_flexibility"),
             ("pandapower.control.controller.DERController.PQVAreas", "QVArea4120.q_flexibility"),
             ("pandapower.control.controller.DERController.PQVAreas", "QVArea4130.q_flexibility"),
             ("pandapower.control.controller.DERController.PQVAreas", "PQAreaSTATCOM.q_flexibility")]
STUBS = ["np.clip/sign/sqrt/minimum/maximum/interp: NaN-faithful shims (validated against numpy on every run)",
         "controller objects are built with object.__new__ and exactly the attributes the methods read"]
ASSUMPTIONS = ["interval claims are stated with tolerance 1e-9 (float artefacts in the area constants)", "0 <= p <= 1.5, -1.5 <= q <= 1.5, 0.5 <= vm <= 1.5 (per unit), sn_mva in [0.1,10], saturate_sn_mva in [0.05,10]; one DER per call"]
OUTSIDE = ["shapely's own geometry code (replaced by a contract stub for simple polygons with concrete vertices; validated against shapely at the sample points of every run)", "operating points outside 0.06 < p < 1, 0.9 < vm < 1.1 for the polygon areas (the polygons' own p / vm range)", "QModel curves",
           "QVArea4130(variant=2) reads undefined attributes (cannot be constructed) - reported in DESIGN.md, not part of this property"]
BOUNDS = {"quick": "saturation step q_prio {T,F}; area saturation for STATCOM, PQVArea4120V1-3, PQVArea4130V1/V3; in_area => within flexibility for PQArea4120/4130",
          "thorough": "same + two DERs per call + raise_merge_overlap False"}


TOL = 1e-9     # area constants are computed once in floating point (e.g. (max_q - 0.1) / (0.2 - 0.1)): band edges carry 1e-16 artefacts


def _ctrl(ctx, dc, area, sat_active, q_prio):
    c = object.__new__(dc.DERController)
    c.pqv_area = area
    c.saturate_sn_mva_activated = sat_active
    c.q_prio = q_prio
    return c


def _series(ctx, vals):
    return ctx.series(vals, index=list(range(len(vals))))


def make_saturate(q_prio, n=1):
    def fn(ctx):
        dc = ctx.load("pandapower.control.controller.DERController.der_control")
        c = _ctrl(ctx, dc, None, True, q_prio)
        p = _series(ctx, [ctx.var(f"p{i}", 0., 1.5) for i in range(n)])
        q = _series(ctx, [ctx.var(f"q{i}", -1.5, 1.5) for i in range(n)])
        vm = _series(ctx, [ctx.var(f"vm{i}", 0.5, 1.5) for i in range(n)])
        c.sn_mva = _series(ctx, [ctx.var(f"sn{i}", 0.1, 10.) for i in range(n)])
        c.saturate_sn_mva = _series(ctx, [ctx.var(f"sat{i}", 0.05, 10.) for i in range(n)])
        p0, q0 = list(p.values), list(q.values)
        p2, q2 = c._saturate(p.copy(), q.copy(), vm)
        for i in range(n):
            s = c.saturate_sn_mva.values[i] / c.sn_mva.values[i]
            ctx.le(f"apparent_power_within_saturation/{i}", p2.values[i] * p2.values[i] + q2.values[i] * q2.values[i], s * s + 1e-9)
            ctx.le(f"p_stays_non_negative/{i}", 0.0, p2.values[i])
            ctx.le(f"p_not_increased/{i}", p2.values[i], p0[i] + 1e-12)
            ctx.le(f"abs_q_not_increased/{i}", q2.values[i] * q2.values[i], q0[i] * q0[i] + 1e-12)
    return fn


AREAS = {
    "STATCOM": lambda pa: pa.PQAreaSTATCOM(-0.328684, 0.410775),
    "4120V1": lambda pa: pa.PQVArea4120V1(), "4120V2": lambda pa: pa.PQVArea4120V2(), "4120V3": lambda pa: pa.PQVArea4120V3(),
    "4120V2_2015": lambda pa: pa.PQVArea4120V2(version=2015),
    "4130V1": lambda pa: pa.PQVArea4130V1(), "4130V3": lambda pa: pa.PQVArea4130V3(), "4130V1_220": lambda pa: pa.PQVArea4130V1(vn_kv=220),
    "4120V2_nomerge": lambda pa: pa.PQVArea4120V2(raise_merge_overlap=False),
}


def make_area_two(aname, narrow_second=False):
    """two DERs in one controller: each element is clipped on its own, whatever the other one does
    (narrow_second: the second DER stays inside one voltage / power band of the area, otherwise the path count is the square of the
    single-DER count - 304^2 for the 4120 areas)"""
    def fn(ctx):
        dc = ctx.load("pandapower.control.controller.DERController.der_control")
        pa = ctx.load("pandapower.control.controller.DERController.PQVAreas")
        area = AREAS[aname](pa)
        c = _ctrl(ctx, dc, area, False, False)
        p = _series(ctx, [ctx.var("p0", 0., 1.5), ctx.var("p1", *((0.3, 0.5) if narrow_second else (0., 1.5)))])
        q = _series(ctx, [ctx.var("q0", -1.5, 1.5), ctx.var("q1", -1.5, 1.5)])
        vm = _series(ctx, [ctx.var("vm0", 0.5, 1.5), ctx.var("vm1", *((1.0, 1.02) if narrow_second else (0.5, 1.5)))])
        p2, q2 = c._saturate(p.copy(), q.copy(), vm)
        fl = area.q_flexibility(p_pu=p2, vm_pu=vm)
        for i in range(2):
            ctx.le(f"q_not_below_area_minimum/{i}", fl[i, 0], q2.values[i] + TOL)
            ctx.le(f"q_not_above_area_maximum/{i}", q2.values[i], fl[i, 1] + TOL)
    return fn

def make_area_and_saturation(aname, q_prio):
    """both a capability area and saturate_sn_mva are given: whether or not the operating point already lies inside the area, the apparent
    power must end within the saturation limit"""
    def fn(ctx):
        dc = ctx.load("pandapower.control.controller.DERController.der_control")
        pa = ctx.load("pandapower.control.controller.DERController.PQVAreas")
        c = _ctrl(ctx, dc, AREAS[aname](pa), True, q_prio)
        p = _series(ctx, [ctx.var("p", 0., 1.5)])
        q = _series(ctx, [ctx.var("q", -1.5, 1.5)])
        vm = _series(ctx, [ctx.var("vm", 0.5, 1.5)])
        c.sn_mva = _series(ctx, [ctx.var("sn", 0.1, 10.)])
        c.saturate_sn_mva = _series(ctx, [ctx.var("sat", 0.05, 10.)])
        p2, q2 = c._saturate(p.copy(), q.copy(), vm)
        s = c.saturate_sn_mva.values[0] / c.sn_mva.values[0]
        ctx.le("apparent_power_within_saturation", p2.values[0] * p2.values[0] + q2.values[0] * q2.values[0], s * s + 1e-9)
        ctx.le("p_stays_non_negative", 0.0, p2.values[0])
    return fn


def make_area(aname):
    def fn(ctx):
        dc = ctx.load("pandapower.control.controller.DERController.der_control")
        pa = ctx.load("pandapower.control.controller.DERController.PQVAreas")
        area = AREAS[aname](pa)
        c = _ctrl(ctx, dc, area, False, False)
        p = _series(ctx, [ctx.var("p", 0., 1.5)])
        q = _series(ctx, [ctx.var("q", -1.5, 1.5)])
        vm = _series(ctx, [ctx.var("vm", 0.5, 1.5)])
        p2, q2 = c._saturate(p.copy(), q.copy(), vm)
        fl = area.q_flexibility(p_pu=p2, vm_pu=vm)
        ctx.le("q_not_below_area_minimum", fl[0, 0], q2.values[0] + TOL)
        ctx.le("q_not_above_area_maximum", q2.values[0], fl[0, 1] + TOL)
        ctx.eq("p_untouched_by_area_saturation", p2.values[0], p.values[0])
        ctx.le("flexibility_is_an_interval", fl[0, 0], fl[0, 1] + TOL)
    return fn


# ---------------------------------------------------------------- polygon areas: shapely (compiled) replaced by its geometric contract
class _SPoint:
    def __init__(self, x, y):
        self.x, self.y = x, y


class _Coords(list):
    pass


class _SLine:
    """the only LineString the areas build: the vertical segment from (x, -1) to (x, 1)"""
    def __init__(self, pts):
        (x0, y0), (x1, y1) = pts
        self.x, self.lo, self.hi = x0, y0, y1

    def _crossings(self, poly):
        ys = []
        v = poly.verts
        for (xa, ya), (xb, yb) in zip(v[:-1], v[1:]):
            if xa == xb:
                if bool(self.x == xa):
                    ys += [ya, yb]
                continue
            lo, hi = (xa, xb) if xa < xb else (xb, xa)
            if bool(self.x >= lo) and bool(self.x <= hi):
                ys.append(ya + (yb - ya) * (self.x - xa) / (xb - xa))
        return ys

    def intersects(self, poly):
        return len(self._crossings(poly)) > 0

    def intersection(self, poly):
        ys = self._crossings(poly)
        lo = hi = ys[0]
        for y in ys[1:]:
            if bool(y < lo):
                lo = y
            if bool(y > hi):
                hi = y
        out = _SLine.__new__(_SLine)
        out.coords = _Coords([(self.x, lo)] if bool(lo == hi) else [(self.x, lo), (self.x, hi)])
        return out


class _SPolygon:
    """simple polygon with concrete vertices; contains(point) = interior by the even-odd rule (a point on the boundary is a null set of the
    symbolic inputs and irrelevant for the claims: clipping a value that lies on the boundary does not move it)"""
    def __init__(self, verts):
        self.verts = [(float(a), float(b)) for a, b in verts]
        if self.verts[0] != self.verts[-1]:
            self.verts.append(self.verts[0])

    def contains(self, pt):
        inside = False
        v = self.verts
        for (xa, ya), (xb, yb) in zip(v[:-1], v[1:]):
            if ya == yb:
                continue
            if bool(pt.y > ya) != bool(pt.y > yb):
                xc = xa + (xb - xa) * (pt.y - ya) / (yb - ya)
                if bool(pt.x < xc):
                    inside = not inside
        return inside


def _shapely_stubs(ctx):
    return dict(Polygon=_SPolygon, Point=_SPoint, LineString=_SLine) if ctx.symbolic else {}


POLY_AREAS = {
    "4110": lambda pa: pa.PQVArea4110(), "4105V1": lambda pa: pa.PQVArea4105(1), "4105V2": lambda pa: pa.PQVArea4105(2),
    "POLYGON": lambda pa: pa.PQVAreaPOLYGON(p_points_pu=(0.1, 0.2, 1, 1, 0.2, 0.1, 0.1), q_pq_points_pu=(0.1, 0.410775, 0.410775, -0.328684, -0.328684, -0.1, 0.1),
                                            q_qv_points_pu=(0.1, 0.410775, 0.410775, -0.328684, -0.328684, -0.1, 0.1), vm_points_pu=(0.9, 1.05, 1.1, 1.1, 1.05, 0.9, 0.9)),
}


def make_poly_area(aname):
    def fn(ctx):
        from .common import patched
        dc = ctx.load("pandapower.control.controller.DERController.der_control")
        pa = ctx.load("pandapower.control.controller.DERController.PQVAreas")
        with patched(pa, **_shapely_stubs(ctx)):
            area = POLY_AREAS[aname](pa)
            c = _ctrl(ctx, dc, area, False, False)
            p = _series(ctx, [ctx.var("p", 0.06, 0.999)])
            q = _series(ctx, [ctx.var("q", -1., 1.)])
            vm = _series(ctx, [ctx.var("vm", 0.901, 1.099)])
            # the abscissas of the polygon vertices are a null set on which 'touches' and 'contains' differ by convention: stay 1e-6 away
            for val, xs in ((p.values[0], area.pq_area.p_points_pu), (vm.values[0], area.qv_area.vm_points_pu)):
                for xv in sorted(set(float(x) for x in xs)):
                    ctx.assume((val >= xv + 1e-6) | (val <= xv - 1e-6))
            p2, q2 = c._saturate(p.copy(), q.copy(), vm)
            fl = area.q_flexibility(p_pu=p2, vm_pu=vm)
        ctx.le("q_not_below_area_minimum", fl[0, 0], q2.values[0] + 1e-6)
        ctx.le("q_not_above_area_maximum", q2.values[0], fl[0, 1] + 1e-6)
        ctx.eq("p_untouched_by_area_saturation", p2.values[0], p.values[0])
    return fn


PQ = {"PQArea4120_2018": lambda pa: pa.PQArea4120(-0.328684, 0.410775), "PQArea4120_2015": lambda pa: pa.PQArea4120(-0.328684, 0.410775, version=2015),
      "PQArea4130": lambda pa: pa.PQArea4130(-0.328684, 0.410775), "PQArea4120_sym_limits": None}


def make_in_area(aname):
    def fn(ctx):
        pa = ctx.load("pandapower.control.controller.DERController.PQVAreas")
        if aname == "PQArea4120_sym_limits":
            area = pa.PQArea4120(ctx.var("min_q", -0.6, -0.15), ctx.var("max_q", 0.15, 0.6))
        else:
            area = PQ[aname](pa)
        p = _series(ctx, [ctx.var("p", 0., 1.5)])
        q = _series(ctx, [ctx.var("q", -1.5, 1.5)])
        ina = area.in_area(p, q, None)
        fl = area.q_flexibility(p)
        inside = bool(ina[0])
        if inside:
            ctx.le("in_area_implies_q_above_minimum", fl[0, 0], q.values[0] + TOL)
            ctx.le("in_area_implies_q_below_maximum", q.values[0], fl[0, 1] + TOL)
        else:
            ctx.true("outside_area_branch_reached", True)
    return fn


def instances(tier):
    out = [Inst(f"saturate_sn_qprio{int(qp)}", make_saturate(qp), nvars=16, samples=3, meta=dict(kernel="_saturate_sn_mva_step", q_prio=qp)) for qp in (True, False)]
    if tier == "thorough":
        out += [Inst(f"saturate_sn_qprio{int(qp)}_two", make_saturate(qp, 2), nvars=24, samples=2, meta=dict(kernel="_saturate_sn_mva_step", q_prio=qp, n=2)) for qp in (True, False)]
    for a in AREAS:
        out.append(Inst(f"area_{a}", make_area(a), nvars=12, samples=3, raises=(ValueError,), meta=dict(kernel="_saturate+area", area=a)))
    out += [Inst(f"area_STATCOM_and_saturation_qprio{int(qp)}", make_area_and_saturation("STATCOM", qp), nvars=16, samples=3, raises=(ValueError,),
                 meta=dict(kernel="_saturate+area+sn", area="STATCOM", q_prio=qp)) for qp in (True, False)]
    out.append(Inst("area_STATCOM_two_ders", make_area_two("STATCOM"), nvars=16, samples=3, raises=(ValueError,), meta=dict(kernel="_saturate+area", area="STATCOM", n=2)))
    if tier == "thorough":
        out.append(Inst("area_4120V2_two_ders", make_area_two("4120V2", narrow_second=True), nvars=16, samples=2, raises=(ValueError,), max_paths=20000, timeout_ms=30000,
                        meta=dict(kernel="_saturate+area", area="4120V2", n=2, second_der="p in [0.3,0.5], vm in [1.0,1.02]")))
    for a in POLY_AREAS:
        out.append(Inst(f"polygon_area_{a}", make_poly_area(a), nvars=12, samples=4, raises=(ValueError,), max_paths=5000,
                        meta=dict(kernel="_saturate+polygon area", area=a)))
    for a in PQ:
        out.append(Inst(f"in_area_{a}", make_in_area(a), nvars=12, samples=3, meta=dict(kernel="in_area vs q_flexibility", area=a)))
    return out


LEVEL_TEXT = ("Bounded model checking of the DER saturation kernels: the real _saturate / _saturate_sn_mva_step and the real VDE capability "
              "area classes run on pandas Series with symbolic p, q, vm; z3 shows for every value that the apparent power respects the "
              "saturation and that the reactive power ends inside the area's own q_flexibility (band edges are ordinary symbolic cases).")
LEVEL_NOTE = ("Trusted: pandas boolean-mask indexing on object Series, shims for clip/sign/sqrt/interp (validated against numpy every run), z3. "
              "Bounds: one DER per call (two in thorough), polygon areas with shapely replaced by a geometric contract stub.")
