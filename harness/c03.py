"""C03 Energy conservation and non-negative losses of passive branches."""
import copy

import numpy as np

from .common import pp, Inst, setcol
from . import c01, c02, c12

PROPERTY = "C03"
LEVEL = "model_checking"
FUNCTIONS = [("pandapower.results_branch", "_get_line_results"), ("pandapower.results_branch", "_get_trafo_results"),
             ("pandapower.results_branch", "_get_trafo3w_results"), ("pandapower.build_branch", "_calc_line_parameter"),
             ("pandapower.build_branch", "_calc_trafo_parameter"), ("pandapower.pypower.makeYbus", "branch_vectors"),
             ("pandapower.pf.run_newton_raphson_pf", "_get_numba_functions"), ("pandapower.pf.pfsoln_numba", "pf_solution_single_slack")]
STUBS = ["passivity is decided on the two-port the real builders produce: p_loss(V) = V^H H V with H the Hermitian part of (Yff Yft; Ytf Ytt); "
         "H positive semidefinite (principal minors >= 0) for all parameter values means pl_mw >= 0 for every voltage"]
ASSUMPTIONS = ["r >= 0, g >= 0, pfe >= 0, x != 0; parameters as in C02", "global conservation = per-bus balance (C01) summed over buses + pl = p_from + p_to (here)"]
OUTSIDE = ["T-model transformer passivity (degree of the determinant too high for the solver within budget; its two-port equals the reference T by C02)",
           "3W transformers' internal star point", "rounding"]
BOUNDS = {"quick": "pl/ql identities of line, trafo, trafo3w result writers (AC and DC); passivity of the line pi two-port and of the pi transformer incl. ratio and phase shift",
          "thorough": "same"}


def make_pl(ac):
    def fn(ctx):
        rb = ctx.load("pandapower.results_branch")
        from pandapower.pypower.idx_brch import PF, QF, PT, QT
        net = copy.deepcopy(c12._batch_net("current"))
        net._options["ac"] = ac
        nbr = net._ppc["branch"].shape[0]
        ppc = {"bus": ctx.obj(net._ppc["bus"]), "branch": ctx.obj(net._ppc["branch"].real)}
        for k in range(nbr):
            for nm, col in (("pf", PF), ("qf", QF), ("pt", PT), ("qt", QT)):
                ppc["branch"][k, col] = ctx.var(f"{nm}{k}", -50., 50.)
        i_ft = ctx.obj(np.ones((nbr, 2)))
        s_ft = ctx.obj(np.ones((nbr, 2)))
        for t in ("res_line", "res_trafo", "res_trafo3w"):
            net[t] = net[t].astype(object if ctx.symbolic else float)
        rb._get_line_results(net, ppc, i_ft)
        rb._get_trafo_results(net, ppc, s_ft, i_ft)
        rb._get_trafo3w_results(net, ppc, s_ft, i_ft)
        for r in range(len(net.line)):
            rl = net.res_line
            ctx.eq(f"line{r}_pl_is_sum_of_terminal_powers", rl.pl_mw.values[r], (rl.p_from_mw.values[r] + rl.p_to_mw.values[r]) if ac else 0.0)
            ctx.eq(f"line{r}_ql_is_sum_of_terminal_powers", rl.ql_mvar.values[r], (rl.q_from_mvar.values[r] + rl.q_to_mvar.values[r]) if ac else 0.0)
            f, t = net._pd2ppc_lookups["branch"]["line"]
            ctx.eq(f"line{r}_p_from_is_branch_flow", rl.p_from_mw.values[r], ppc["branch"][f + r, PF])
            ctx.eq(f"line{r}_p_to_is_branch_flow", rl.p_to_mw.values[r], ppc["branch"][f + r, PT])
        rt = net.res_trafo
        f, t = net._pd2ppc_lookups["branch"]["trafo"]
        ctx.eq("trafo_pl_is_sum_of_terminal_powers", rt.pl_mw.values[0], (rt.p_hv_mw.values[0] + rt.p_lv_mw.values[0]) if ac else 0.0)
        ctx.eq("trafo_p_hv_is_branch_flow", rt.p_hv_mw.values[0], ppc["branch"][f, PF])
        ctx.eq("trafo_p_lv_is_branch_flow", rt.p_lv_mw.values[0], ppc["branch"][f, PT])
        if ac:
            ctx.eq("trafo_ql_is_sum_of_terminal_powers", rt.ql_mvar.values[0], rt.q_hv_mvar.values[0] + rt.q_lv_mvar.values[0])
        r3 = net.res_trafo3w
        ctx.eq("trafo3w_pl_is_sum_of_three_terminal_powers", r3.pl_mw.values[0],
               (r3.p_hv_mw.values[0] + r3.p_mv_mw.values[0] + r3.p_lv_mw.values[0]) if ac else 0.0)
    return fn


def _psd(ctx, label, tp):
    """Hermitian part of the two-port positive semidefinite"""
    Yff, Yft, Ytf, Ytt = tp["Yff"], tp["Yft"], tp["Ytf"], tp["Ytt"]
    h11, h22 = Yff.real, Ytt.real
    o_re = (Yft.real + Ytf.real) / 2
    o_im = (Yft.imag - Ytf.imag) / 2
    ctx.le(f"{label}/H11_nonnegative", 0.0, h11)
    ctx.le(f"{label}/H22_nonnegative", 0.0, h22)
    ctx.le(f"{label}/det_H_nonnegative", o_re * o_re + o_im * o_im, h11 * h22)


def make_passive_line():
    def fn(ctx):
        from pandapower.pypower.idx_bus import BASE_KV
        bb = ctx.load("pandapower.build_branch")
        mY = ctx.load("pandapower.pypower.makeYbus")
        net = copy.deepcopy(c02._line_net())
        rng = {"r_ohm_per_km": (0., 1.), "x_ohm_per_km": (0.01, 1.), "c_nf_per_km": (0., 500.), "g_us_per_km": (0., 10.), "length_km": (0.1, 50.), "parallel": (1., 4.)}
        for c, r in rng.items():
            setcol(ctx, net.line, c, [ctx.var(c, *r)])
        sn, vn = ctx.var("sn_mva", 1., 1000.), ctx.var("vn_kv", 0.4, 400.)
        net.sn_mva = sn
        ppc = {"bus": ctx.obj(net._ppc["bus"]), "branch": ctx.obj(net._ppc["branch"].real), "baseMVA": sn}
        ppc["bus"][:, BASE_KV] = vn
        bb._calc_line_parameter(net, ppc)
        _psd(ctx, "line_two_port_is_passive", c02._two_port(ctx, mY, ppc["branch"][0]))
    return fn


def make_passive_trafo():
    def fn(ctx):
        from pandapower.pypower.idx_bus import BASE_KV
        bb = ctx.load("pandapower.build_branch")
        mY = ctx.load("pandapower.pypower.makeYbus")
        net = copy.deepcopy(c02._trafo_net("Ratio", "hv", "pi", True))
        sn_t = ctx.var("sn_mva", 1., 400.)
        vk, m = ctx.var("vk_percent", 1., 25.), ctx.var("m_vkr", 0.0, 0.95)
        i0, nn = ctx.var("i0_percent", 0.0, 2.), ctx.var("n_pfe", 0.05, 0.95)
        vals = {"sn_mva": sn_t, "vk_percent": vk, "vkr_percent": vk * (1 - m * m) / (1 + m * m), "i0_percent": i0,
                "pfe_kw": i0 / 100 * sn_t * (1 - nn * nn) / (1 + nn * nn) * 1000, "shift_degree": ctx.var("shift_degree", -180., 180.),
                "tap_pos": ctx.var("tap_pos", -2., 2.), "tap_step_percent": ctx.var("tap_step_percent", 0.1, 3.)}
        for c, v in vals.items():
            setcol(ctx, net.trafo, c, [v])
        ppc = {"bus": ctx.obj(net._ppc["bus"]), "branch": ctx.obj(net._ppc["branch"].real), "baseMVA": net.sn_mva}
        bb._calc_trafo_parameter(net, ppc)
        f, t = net._pd2ppc_lookups["branch"]["trafo"]
        _psd(ctx, "pi_transformer_two_port_is_passive", c02._two_port(ctx, mY, ppc["branch"][f]))
    return fn


def instances(tier):
    return [Inst("pl_identities_ac", make_pl(True), nvars=40, samples=2, raises=(UserWarning,), meta=dict(part="a", ac=True)),
            Inst("pl_identities_dc", make_pl(False), nvars=40, samples=2, raises=(UserWarning,), meta=dict(part="a", ac=False)),
            Inst("single_slack_fast_path", c01.make_shortcut(), nvars=30, samples=2, timeout_ms=120000,
                 meta=dict(part="c", note="slack P of the fast result extraction (losses + demand) equals the general extraction whenever it is selected")),
            Inst("slack_power_split_with_a_generator_at_the_slack_bus", c01.make_generation("slack_plus_pv"), nvars=60, samples=2, timeout_ms=60000,
                 meta=dict(part="c", note="total generation: the reference machines at a slack bus that also carries a PV generator deliver injection + demand - the PV set point")),
            Inst("passive_line", make_passive_line(), nvars=20, samples=2, timeout_ms=120000, meta=dict(part="b", element="line")),
            Inst("passive_trafo_pi", make_passive_trafo(), nvars=30, samples=2, timeout_ms=120000, meta=dict(part="b", element="trafo pi"))]


INSTANCE_TIMEOUT_S = {"quick": 900, "thorough": 3000}
LEVEL_TEXT = ("Bounded model checking of (a) the loss bookkeeping of the real branch result writers (pl = p_from + p_to, zero in DC) on symbolic "
              "branch flows and (b) passivity of the two-ports the real builders produce: z3 shows the Hermitian part positive semidefinite for "
              "every non-negative r, g, pfe, every ratio and phase shift - hence pl_mw >= 0 for every voltage.")
LEVEL_NOTE = ("Trusted: pfsoln computes terminal powers as V conj(Yf V) (C06/C01), z3 (nlsat). Bounds: one element per instance; T model via C02's equality with the reference T circuit.")
