"""C08 Calculations never corrupt the user's network, even when they fail."""
import ast
import copy
import importlib
import inspect
import sys
import textwrap

import numpy as np
import pandas as pd

from .common import pp, Inst, patched, setcol

PROPERTY = "C08"
LEVEL = "model_checking"
FUNCTIONS = [("pandapower.powerflow", "_powerflow"), ("pandapower.powerflow", "_powerflow_with_auxiliary_elements"),
             ("pandapower.powerflow", "_ppci_to_net"), ("pandapower.optimal_powerflow", "_optimal_powerflow"),
             ("pandapower.optimal_powerflow", "_optimal_powerflow_with_auxiliary_elements"),
             ("pandapower.shortcircuit.calc_sc", "calc_sc"), ("pandapower.shortcircuit.calc_sc", "_calc_sc"),
             ("pandapower.contingency.contingency", "run_contingency"), ("pandapower.auxiliary", "_add_auxiliary_elements"),
             ("pandapower.auxiliary", "_clean_up"), ("pandapower.pd2ppc", "_pd2ppc"), ("pandapower.build_branch", "_get_vk_values_from_table"),
             ("pandapower.build_branch", "_calc_tap_from_dataframe"), ("pandapower.build_bus", "_calc_shunts_and_add_on_ppc")]
STUBS = ["every stage called by the orchestrating functions is wrapped: symbolic fault point and symbolic exception class (8 classes incl. the repository's own not-converged exceptions and a BaseException) consulted before and after the *real* stage "
         "(at most one fault per run); stage list derived from the AST of the orchestrating functions on every run"]
ASSUMPTIONS = ["at most one fault per run; the restore routine called from the exception handlers (_remove_auxiliary_elements) does not itself crash", "(A) table cells read by the builders are symbolic; (B) the net is concrete (dcline, tap-table trafo, gen, load, shunt), the fault "
               "point is the solver's variable", "'unchanged' = same row index per element table and every pre-existing column still present with "
               "identical values (NaN == NaN); columns added by a run and dtype changes are not counted"]
OUTSIDE = ["exceptions raised inside compiled code in the middle of a write", "runpp_3ph orchestration",
           "b2b_vsc nets (the same restore code path as dcline gens; not exercised)"]
BOUNDS = {"quick": "(A) one net, 14 symbolic cells; (B) runpp, rundcpp, runopp, calc_sc(3ph), run_contingency x every derived stage boundary",
          "thorough": "same + calc_sc 1ph/2ph, rundcopp, natural-exception scenarios"}
ELEMENT_TABLES = ["bus", "load", "sgen", "gen", "ext_grid", "line", "trafo", "trafo3w", "shunt", "ward", "xward", "dcline", "storage",
                  "switch", "impedance", "vsc", "b2b_vsc", "trafo_characteristic_table", "poly_cost"]
_NET = {}


class Injected(Exception):
    pass


def _fault_kinds():
    from pandapower.auxiliary import LoadflowNotConverged, OPFNotConverged, ControllerNotConverged
    return [Injected, LoadflowNotConverged, OPFNotConverged, ControllerNotConverged, UserWarning, ValueError, KeyError, _Interrupt]


class _Interrupt(BaseException):
    """stands for KeyboardInterrupt / SystemExit: not derived from Exception"""


FAULT_KINDS = _fault_kinds()


def _net():
    if "n" in _NET:
        return _NET["n"]
    net = pp.create_empty_network()
    b = [pp.create_bus(net, 110., min_vm_pu=0.9, max_vm_pu=1.1) for _ in range(3)] + [pp.create_bus(net, 20., min_vm_pu=0.9, max_vm_pu=1.1)]
    pp.create_ext_grid(net, b[0], s_sc_max_mva=1000, rx_max=0.1, min_p_mw=-100, max_p_mw=100, min_q_mvar=-100, max_q_mvar=100)
    pp.create_line_from_parameters(net, b[0], b[1], 10, 0.1, 0.3, 10, 1., max_loading_percent=100)
    pp.create_line_from_parameters(net, b[0], b[1], 12, 0.1, 0.3, 10, 1., max_loading_percent=100)
    pp.create_line_from_parameters(net, b[1], b[2], 8, 0.1, 0.3, 10, 1., max_loading_percent=100)
    pp.create_line_from_parameters(net, b[0], b[2], 9, 0.1, 0.3, 10, 1., max_loading_percent=100)
    pp.create_dcline(net, b[1], b[2], 2., 1., 0.5, 1.0, 1.0, max_p_mw=20, min_q_from_mvar=-5, max_q_from_mvar=5, min_q_to_mvar=-5, max_q_to_mvar=5)
    pp.create_transformer_from_parameters(net, b[2], b[3], 40, 110, 20, 0.3, 12, 20, 0.05, tap_side="hv", tap_neutral=0, tap_min=-2, tap_max=2,
                                          tap_step_percent=1.5, tap_pos=1, tap_changer_type="Tabular", tap_dependency_table=True,
                                          id_characteristic_table=0, max_loading_percent=100)
    net["trafo_characteristic_table"] = pd.DataFrame([{"id_characteristic": 0, "step": s, "voltage_ratio": 1 + 0.015 * s, "angle_deg": 0.,
                                                       "vk_percent": 12 + s, "vkr_percent": 0.3 + 0.01 * s, "vk_hv_percent": np.nan,
                                                       "vkr_hv_percent": np.nan, "vk_mv_percent": np.nan, "vkr_mv_percent": np.nan,
                                                       "vk_lv_percent": np.nan, "vkr_lv_percent": np.nan} for s in (-1, 0, 1)])
    pp.create_load(net, b[3], 5., 1.)
    pp.create_shunt(net, b[3], 0.5, 0.1)
    pp.create_gen(net, b[1], 1., vm_pu=1.0, min_q_mvar=-5, max_q_mvar=5, min_p_mw=0, max_p_mw=5, controllable=True)
    pp.create_poly_cost(net, 0, "ext_grid", 1.)
    pp.create_poly_cost(net, 0, "gen", 2.)
    _NET["n"] = net
    return net


def _snapshot(net):
    return {t: net[t].copy(deep=True) for t in ELEMENT_TABLES if t in net and isinstance(net[t], pd.DataFrame)}


def _same_cell(a, b):
    if isinstance(a, float) and a != a:
        return isinstance(b, float) and b != b
    try:
        return bool(a == b)
    except Exception:
        return a is b


def _compare(ctx, label, snap, net):
    for t, before in snap.items():
        after = net[t]
        ctx.true(f"{label}/rows_unchanged/{t}", list(before.index) == list(after.index))
        if list(before.index) != list(after.index):
            continue
        ok = True
        for c in before.columns:
            if c not in after.columns:
                ok = False
                break
            for x, y in zip(before[c].values, after[c].values):
                if not _same_cell(x, y):
                    ok = False
        ctx.true(f"{label}/input_values_unchanged/{t}", ok)


# ---------------------------------------------------------------------------------------------- (B) fault schedule
ORCH = {
    "runpp": [("pandapower.run", "runpp"), ("pandapower.powerflow", "_powerflow"), ("pandapower.powerflow", "_powerflow_with_auxiliary_elements"),
              ("pandapower.powerflow", "_ppci_to_net")],
    "rundcpp": [("pandapower.run", "rundcpp"), ("pandapower.powerflow", "_powerflow"), ("pandapower.powerflow", "_powerflow_with_auxiliary_elements"),
                ("pandapower.powerflow", "_ppci_to_net")],
    "runopp": [("pandapower.run", "runopp"), ("pandapower.optimal_powerflow", "_optimal_powerflow"),
               ("pandapower.optimal_powerflow", "_optimal_powerflow_with_auxiliary_elements")],
    "rundcopp": [("pandapower.run", "rundcopp"), ("pandapower.optimal_powerflow", "_optimal_powerflow"),
                 ("pandapower.optimal_powerflow", "_optimal_powerflow_with_auxiliary_elements")],
    "calc_sc": [("pandapower.shortcircuit.calc_sc", "calc_sc"), ("pandapower.shortcircuit.calc_sc", "_calc_sc"),
                ("pandapower.shortcircuit.calc_sc", "_calc_sc_1ph"), ("pandapower.shortcircuit.ppc_conversion", "_init_ppc")],
    "run_contingency": [("pandapower.contingency.contingency", "run_contingency")],
    "run_contingency_ls2g": [("pandapower.contingency.contingency", "run_contingency_ls2g")],
    "estimate": [("pandapower.estimation.state_estimation", "estimate"), ("pandapower.estimation.state_estimation", "StateEstimation.estimate")],
    "estimate_not_converging": [("pandapower.estimation.state_estimation", "estimate"), ("pandapower.estimation.state_estimation", "StateEstimation.estimate")],
}
# stages that are not pandapower functions but at whose boundary the user's tables are in a temporarily changed state
EXTRA_STAGES = {("pandapower.contingency.contingency", "run_contingency_ls2g"): ["init_ls2g", "ContingencyAnalysisCPP"]}


def _net_se():
    """closed bus-bus switches between buses that both carry elements: state estimation with fuse_buses_with_bb_switch=None gives them a
    temporary impedance (and a backup column) in the user's switch table"""
    if "se" not in _NET:
        from pandapower.estimation.util import add_virtual_meas_from_loadflow
        net = pp.create_empty_network()
        b = [pp.create_bus(net, 20.) for _ in range(5)]
        pp.create_ext_grid(net, b[0])
        pp.create_line_from_parameters(net, b[0], b[1], 2., 0.1, 0.3, 10., 1.)
        pp.create_line_from_parameters(net, b[2], b[3], 2., 0.1, 0.3, 10., 1.)
        pp.create_line_from_parameters(net, b[3], b[4], 2., 0.1, 0.3, 10., 1.)
        pp.create_switch(net, b[1], b[2], "b", closed=True, z_ohm=0.0)
        pp.create_switch(net, b[3], 2, "l", closed=True)
        pp.create_load(net, b[1], 1., 0.3)
        pp.create_load(net, b[2], 0.5, 0.1)
        pp.create_load(net, b[4], 0.7, 0.2)
        pp.runpp(net, numba=False, lightsim2grid=False)
        add_virtual_meas_from_loadflow(net, seed=1)
        _NET["se"] = net
    return _NET["se"]


def _net_ls2g():
    """distributed slack with a participating generator that is not a slack, an ideal phase shifter: both are changed temporarily by run_contingency_ls2g"""
    if "ls2g" not in _NET:
        net = pp.create_empty_network()
        b = [pp.create_bus(net, v) for v in (110., 110., 110., 20.)]
        pp.create_ext_grid(net, b[0], slack_weight=1.0)
        for f, t in ((0, 1), (1, 2), (2, 0)):
            pp.create_line_from_parameters(net, b[f], b[t], 10., 0.1, 0.3, 10., 0.5)
        pp.create_transformer_from_parameters(net, b[2], b[3], 40, 110, 20, 0.3, 12, 20, 0.05, tap_side="hv", tap_neutral=0, tap_min=-2, tap_max=2,
                                              tap_step_degree=2., tap_step_percent=np.nan, tap_pos=1, tap_changer_type="Ideal")
        pp.create_transformer_from_parameters(net, b[2], b[3], 40, 110, 20, 0.3, 12, 20, 0.05)
        pp.create_gen(net, b[1], 5., vm_pu=1.01, slack_weight=1.0)
        pp.create_gen(net, b[2], 3., vm_pu=1.0, slack_weight=0.0)
        pp.create_load(net, b[3], 10., 2.)
        net.line["max_loading_percent"] = 100.
        net.trafo["max_loading_percent"] = 100.
        _NET["ls2g"] = net
    return _NET["ls2g"]


RESTORE_ROUTINES = {"_remove_auxiliary_elements", "reset_bb_switch_impedance"}      # only called from exception handlers: a crash inside the restore itself is a second fault


def _stages(modname, fname):
    """names called at statement level in the function that are bound, in its module, to pandapower functions (not classes)"""
    importlib.import_module(modname)
    mod = sys.modules[modname]
    fn = mod
    for part in fname.split("."):
        if not hasattr(fn, part):
            return mod, []
        fn = getattr(fn, part)
    tree = ast.parse(textwrap.dedent(inspect.getsource(fn)))
    names = []
    for node in ast.walk(tree):
        if isinstance(node, ast.Call) and isinstance(node.func, ast.Name):
            obj = mod.__dict__.get(node.func.id)
            tgt = getattr(obj, "py_func", obj)
            if inspect.isfunction(tgt) and (tgt.__module__ or "").startswith("pandapower") and node.func.id not in names \
                    and node.func.id != fname:
                names.append(node.func.id)
    return mod, names


def make_fault(calc):
    def fn(ctx):
        net = copy.deepcopy(_net_ls2g() if calc == "run_contingency_ls2g" else (_net_se() if calc.startswith("estimate") else _net()))
        snap = _snapshot(net)
        w = ctx.var("fault_point", 0., 400.)
        kind = ctx.var("fault_kind", 0., float(len(FAULT_KINDS)))
        counter = {"p": 0}
        trace = []

        def point(label):
            p = counter["p"]
            counter["p"] += 1
            hit = (w >= p) & (w < p + 1) if ctx.symbolic else (p <= float(w) < p + 1)
            if bool(hit):
                trace.append(label)
                # the exception class is part of the schedule: handlers that special-case a class are explored too
                for k, mk in enumerate(FAULT_KINDS):
                    last = k == len(FAULT_KINDS) - 1
                    if last or bool(kind < k + 1):
                        raise mk(label)

        restore = []
        try:
            for modname, fname in ORCH[calc]:
                mod, names = _stages(modname, fname)
                names = names + [n_ for n_ in EXTRA_STAGES.get((modname, fname), []) if n_ in mod.__dict__]
                for nm in names:
                    orig = mod.__dict__[nm]
                    if getattr(orig, "_c08_wrapped", False) or nm in RESTORE_ROUTINES:
                        continue

                    def wrapper(*a, __orig=orig, __nm=nm, **k):
                        point(f"{__nm}:before")
                        r = __orig(*a, **k)
                        point(f"{__nm}:after")
                        return r
                    wrapper._c08_wrapped = True
                    restore.append((mod, nm, orig))
                    mod.__dict__[nm] = wrapper
            raised = None
            try:
                if calc == "runpp":
                    sys.modules["pandapower.run"].runpp(net, numba=False)
                elif calc == "rundcpp":
                    sys.modules["pandapower.run"].rundcpp(net)
                elif calc == "runopp":
                    sys.modules["pandapower.run"].runopp(net, numba=False)
                elif calc == "rundcopp":
                    sys.modules["pandapower.run"].rundcopp(net)
                elif calc == "calc_sc":
                    net.gen["vn_kv"] = 110.; net.gen["xdss_pu"] = 0.2; net.gen["rdss_ohm"] = 0.1; net.gen["cos_phi"] = 0.9; net.gen["sn_mva"] = 10.
                    snap = _snapshot(net)
                    sys.modules["pandapower.shortcircuit.calc_sc"].calc_sc(net, fault="3ph", case="max")
                elif calc == "estimate_not_converging":      # the estimator gives up after one iteration and returns normally
                    ok = sys.modules["pandapower.estimation.state_estimation"].estimate(net, init="flat", fuse_buses_with_bb_switch=None, maximum_iterations=1)
                    if not trace:
                        ctx.true("estimation_reported_failure", not bool(ok["success"] if isinstance(ok, dict) else ok))
                elif calc == "estimate":
                    sys.modules["pandapower.estimation.state_estimation"].estimate(net, init="flat", fuse_buses_with_bb_switch=None)
                elif calc == "run_contingency_ls2g":
                    import warnings
                    with warnings.catch_warnings():
                        warnings.simplefilter("ignore")
                        sys.modules["pandapower.contingency.contingency"].run_contingency_ls2g(
                            net, {"line": {"index": [0, 1]}, "trafo": {"index": [1]}}, distributed_slack=True, numba=False)
                elif calc == "run_contingency":
                    sys.modules["pandapower.contingency.contingency"].run_contingency(net, {"line": {"index": [0, 3]}, "trafo": {"index": [0]}},
                                                                                          raise_errors=True, numba=False)
            except BaseException as e:       # injected faults of every class; natural exceptions count as crash points too
                if type(e).__name__ in ("Abort", "Infeasible", "SkipSample"):
                    raise
                raised = f"{type(e).__name__}"
        finally:
            for mod, nm, orig in restore:
                mod.__dict__[nm] = orig
        if not trace:
            ctx.true("stages_were_discovered", counter["p"] >= 4)
        ctx.notes.append(f"points={counter['p']} fault={trace} raised={raised}")
        _compare(ctx, calc, snap, net)
    return fn


# ---------------------------------------------------------------------------------------------- (A) symbolic non-mutation
def make_builders(mode):
    def fn(ctx):
        p2 = ctx.load("pandapower.pd2ppc")
        net = copy.deepcopy(_net())
        pp.runpp(net, numba=False, check_connectivity=False, lightsim2grid=False) if mode == "pf" else None
        if mode == "sc":
            import pandapower.shortcircuit as sc
            net.gen["vn_kv"] = 110.; net.gen["xdss_pu"] = 0.2; net.gen["rdss_ohm"] = 0.1; net.gen["cos_phi"] = 0.9; net.gen["sn_mva"] = 10.
            net.dcline.in_service = False
            sc.calc_sc(net, fault="3ph", case="max", check_connectivity=False)
        cells = {}

        def sym(tab, col, lo, hi):
            vals = []
            for r in range(len(net[tab])):
                v = ctx.var(f"{tab}{r}.{col}", lo, hi)
                cells[(tab, col, r)] = v
                vals.append(v)
            setcol(ctx, net[tab], col, vals)
        sym("trafo", "vk_percent", 5., 20.)
        sym("trafo", "vn_hv_kv", 100., 120.)
        sym("trafo", "shift_degree", -10., 10.)
        sym("trafo_characteristic_table", "vk_percent", 5., 20.)
        sym("trafo_characteristic_table", "voltage_ratio", 0.9, 1.1)
        sym("load", "p_mw", 0.1, 10.)
        sym("shunt", "q_mvar", 0.1, 2.)
        sym("gen", "vm_pu", 0.95, 1.05)
        if mode == "pf":
            sym("line", "r_ohm_per_km", 0.01, 1.)
        net._options["recycle"] = None
        aux = ctx.load("pandapower.auxiliary") if ctx.symbolic else sys.modules["pandapower.auxiliary"]
        n_gen = len(net.gen)
        if mode == "pf":
            net.gen = net.gen.astype({"vm_pu": object}) if ctx.symbolic else net.gen
            ppc, ppci = p2._pd2ppc(net)
        else:
            ppc, ppci = p2._pd2ppc(net)
        ctx.true("builders_ran", ppc["branch"].shape[0] > 0)
        for (tab, col, r), v in cells.items():
            ctx.eq(f"cell_unchanged/{tab}.{col}[{r}]", net[tab][col].values[r], v)
        ctx.true("no_rows_added/gen", len(net.gen) == n_gen)
    return fn


def instances(tier):
    out = []
    calcs = ["runpp", "rundcpp", "runopp", "calc_sc", "run_contingency", "run_contingency_ls2g", "estimate", "estimate_not_converging"] + (["rundcopp"] if tier == "thorough" else [])
    for c in calcs:
        out.append(Inst(f"fault_schedule_{c}", make_fault(c), nvars=5, samples=3, max_paths=4000, meta=dict(part="B", calculation=c)))
    out.append(Inst("builders_pf", make_builders("pf"), nvars=40, samples=2, meta=dict(part="A", mode="pf"), raises=(UserWarning,)))
    return out


INSTANCE_TIMEOUT_S = {"quick": 900, "thorough": 3000}
LEVEL_TEXT = ("(B) Fault-schedule model checking of the real orchestration code: every stage boundary derived from the current source is a "
              "possible crash point chosen by the solver's fault variable; after each path the element tables are compared with a snapshot "
              "(rows and pre-existing values). (A) The real ppc builders run on tables with symbolic cells and z3 shows every cell is still "
              "the same term afterwards, for all values.")
LEVEL_NOTE = ("Trusted: stages are atomic with respect to the user's tables except through the statements explored (a crash inside compiled "
              "code mid-write is outside). The snapshot oracle ignores added columns and dtype changes. Bounds: one fault per run, one net.")
