"""C18 Short-circuit results are consistent with IEC 60909 relations (result formulas; the Thevenin impedance itself is outside)."""
import numpy as np
import pandas as pd
import z3

from .common import pp, Inst, patched
from symx import core

PROPERTY = "C18"
LEVEL = "model_checking"
FUNCTIONS = [("pandapower.shortcircuit.currents", "_calc_ikss"), ("pandapower.shortcircuit.currents", "_calc_ip"),
             ("pandapower.shortcircuit.kappa", "_kappa"), ("pandapower.shortcircuit.kappa", "_kappa_method_b"),
             ("pandapower.shortcircuit.kappa", "_add_kappa_to_ppc"), ("pandapower.build_bus", "_add_ext_grid_sc_impedance")]
STUBS = ["kappa method C instance: numpy inv / scipy factorized of the 1x1 equivalent-frequency Ybus -> their contract (exact inverse)", "the Thevenin impedance of the network (Zbus = inverse of Ybus: LAPACK/SuperLU) is a symbolic input r + jx with r >= 0, x > 0",
         "_current_source_current -> no current sources (the property's 'without current-source contributions')",
         "exp(t) -> uninterpreted with 0 < exp(t) <= 1 for t <= 0 and exp(0) = 1"]
ASSUMPTIONS = ["one faulted bus; c in [0.9, 1.1]; Un, base MVA, R/X symbolic; rx = 2k/(1-k^2) rationalising parametrisation for the ext_grid"]
OUTSIDE = ["Thevenin impedance of a whole network, dependence on which other buses are faulted (ybus_fact path), inverse_y vs factorised agreement",
           "1ph faults (zero-sequence network)", "current-source contributions", "ith"]
BOUNDS = {"quick": "3ph and 2ph at one bus; kappa radial and method B (meshed); ip; base independence; ext_grid impedance", "thorough": "same"}


class _N(dict):
    def __getattr__(self, k):
        return self[k]


def _ppci(ctx, S, r_ohm=None, x_ohm=None):
    from pandapower.pypower.idx_bus_sc import C_MIN, C_MAX, R_EQUIV, X_EQUIV, bus_cols_sc, IKSS2, K_SG
    from pandapower.pypower.idx_bus import BASE_KV, bus_cols, BUS_I
    from pandapower.pypower.idx_brch import TAP, branch_cols
    un = ctx.var("un_kv", 0.4, 400.)
    c = ctx.var("c", 0.9, 1.1)
    r_ohm = ctx.var("r_ohm", 0., 50.) if r_ohm is None else r_ohm
    x_ohm = ctx.var("x_ohm", 0.01, 50.) if x_ohm is None else x_ohm
    bus = ctx.obj(np.zeros((1, bus_cols + bus_cols_sc)))
    bus[0, BASE_KV] = un
    bus[0, C_MAX] = c
    bus[0, C_MIN] = c
    zb = un * un / S
    bus[0, R_EQUIV] = r_ohm / zb
    bus[0, X_EQUIV] = x_ohm / zb
    bus[0, K_SG] = float("nan")
    branch = np.zeros((1, branch_cols))
    branch[0, TAP] = 1.0
    mk = (lambda re, im: core.SComplex(re, im)) if ctx.symbolic else complex
    Z = ctx.obj(np.zeros((1, 1), dtype=complex))
    Z[0, 0] = mk(r_ohm / zb, x_ohm / zb)
    return {"bus": bus, "branch": branch, "baseMVA": S, "internal": {"Zbus": Z}}, un, c, r_ohm, x_ohm


def _run(ctx, cur, fault, S, r_ohm=None, x_ohm=None):
    net = _N()
    net["_options"] = {"fault": fault, "case": "max", "inverse_y": True, "use_pre_fault_voltage": False}
    ppci, un, c, r, x = _ppci(ctx, S, r_ohm, x_ohm)
    with patched(cur, _current_source_current=lambda net_, ppci_, bus_idx: None):
        cur._calc_ikss(net, ppci, np.array([0]))
    return ppci, un, c, r, x


def make_ikss():
    def fn(ctx):
        cur = ctx.load("pandapower.shortcircuit.currents")
        from pandapower.pypower.idx_bus_sc import IKSS1, SKSS, R_EQUIV_OHM, X_EQUIV_OHM
        S = ctx.var("base_mva", 1., 1000.)
        ppci, un, c, r, x = _run(ctx, cur, "3ph", S)
        i3 = ppci["bus"][0, IKSS1]
        ctx.eq("thevenin_resistance_in_ohm", ppci["bus"][0, R_EQUIV_OHM], r)
        ctx.eq("thevenin_reactance_in_ohm", ppci["bus"][0, X_EQUIV_OHM], x)
        ctx.eq("ikss_3ph_squared_times_3_Zk_squared_is_c_Un_squared", (i3 * np.sqrt(3)) * (i3 * np.sqrt(3)) * (r * r + x * x), c * c * un * un)
        ctx.le("ikss_nonnegative", 0.0, i3)
        ctx.eq("skss_is_sqrt3_Un_ikss", ppci["bus"][0, SKSS], np.sqrt(3) * (i3 * un))
        ppci2, *_ = _run(ctx, cur, "2ph", S, r, x)
        i2 = ppci2["bus"][0, IKSS1]
        ctx.eq("ikss_2ph_is_sqrt3_half_of_3ph", 2 * i2, np.sqrt(3) * i3)
        # the same physical impedance on another per-unit base
        S2 = ctx.var("base_mva_2", 1., 1000.)
        ppci3, *_ = _run(ctx, cur, "3ph", S2, r, x)
        ctx.eq("ikss_in_kA_independent_of_per_unit_base", ppci3["bus"][0, IKSS1], i3)
        ctx.eq("skss_independent_of_per_unit_base", ppci3["bus"][0, SKSS], ppci["bus"][0, SKSS])
    return fn


def _exp_hook(ctx):
    if not ctx.symbolic:
        return

    def axioms(c, x, y, apps):
        sb = lambda q: q.t if isinstance(q, core.SBool) else z3.BoolVal(bool(q))
        c.side += [y.num() > 0, z3.Implies(sb(x <= 0), sb(y <= 1)), z3.Implies(sb(x == 0), sb(y == 1))]
    ctx.memo["__exp_hook__"] = lambda x: core.ufun("exp", x, lambda t: float(np.exp(t)), axioms)


def make_kappa(method):
    def fn(ctx):
        ka = ctx.load("pandapower.shortcircuit.kappa")
        cur = ctx.load("pandapower.shortcircuit.currents")
        from pandapower.pypower.idx_bus_sc import R_EQUIV, X_EQUIV, KAPPA, IKSS1, IKSS2, IP, bus_cols_sc
        from pandapower.pypower.idx_bus import bus_cols, BASE_KV
        _exp_hook(ctx)
        bus = ctx.obj(np.zeros((1, bus_cols + bus_cols_sc)))
        bus[0, R_EQUIV] = ctx.var("r", 0., 10.)
        bus[0, X_EQUIV] = ctx.var("x", 0.01, 10.)
        bus[0, BASE_KV] = 20.0 if method != "B_lv" else 0.4
        bus[0, KAPPA] = float("nan")
        ik = ctx.var("ikss", 0., 100.)
        bus[0, IKSS1] = ik
        net = _N()
        net["_options"] = {"kappa": True, "topology": "radial" if method == "radial" else "meshed", "kappa_method": "B"}
        ppc = {"bus": bus}
        ka._add_kappa_to_ppc(net, ppc)
        k = bus[0, KAPPA]
        ctx.le("kappa_at_least_1.02" if method == "radial" else "kappa_at_least_1", 1.02 if method == "radial" else 1.0, k)
        ctx.le("kappa_at_most_2" if method != "B_lv" else "kappa_at_most_1.8_low_voltage", k, 2.0 if method != "B_lv" else 1.8)
        cur._calc_ip(net, ppc)
        ctx.eq("ip_is_kappa_sqrt2_ikss", bus[0, IP], np.sqrt(2) * (k * ik))
    return fn


def make_kappa_c():
    """kappa method C on a single ext_grid-fed bus: the equivalent-frequency network must be the one that is inverted / factorised,
    whatever inverse_y says"""
    def fn(ctx):
        ka = ctx.load("pandapower.shortcircuit.kappa")
        imp = ctx.load("pandapower.shortcircuit.impedance")
        from pandapower.pypower.idx_bus_sc import R_EQUIV, X_EQUIV, KAPPA, GS_P, BS_P, bus_cols_sc
        from pandapower.pypower.idx_bus import bus_cols, BASE_KV, GS, BS, BUS_I
        from pandapower.pypower.idx_brch import branch_cols
        _exp_hook(ctx)
        r, x = ctx.var("r_grid", 0.001, 1.), ctx.var("x_grid", 0.01, 1.)
        base = 10.0
        kappas = []
        for inverse_y in (True, False):
            bus = ctx.obj(np.zeros((1, bus_cols + bus_cols_sc)))
            bus[0, BASE_KV] = 20.0
            bus[0, GS] = r / (r * r + x * x) * base          # the ext_grid's short-circuit admittance as _add_ext_grid_sc_impedance stores it
            bus[0, BS] = -x / (r * r + x * x) * base
            bus[0, GS_P], bus[0, BS_P] = float("nan"), float("nan")
            ppc = {"bus": bus, "branch": np.zeros((0, branch_cols)), "baseMVA": base, "internal": {}}
            net = _N()
            net["f_hz"] = 50
            net["_options"] = {"inverse_y": inverse_y, "r_fault_ohm": 0., "x_fault_ohm": 0.}
            stubs = {}
            if ctx.symbolic:
                from symx.shim import DMat

                def inv1(A):
                    A = A.A if isinstance(A, DMat) else np.asarray(A)
                    o = ctx.obj(np.zeros((1, 1), dtype=complex))
                    o[0, 0] = 1 / A[0, 0]
                    return o

                def fact1(A):
                    A = A.A if isinstance(A, DMat) else np.asarray(A)
                    return lambda rhs: ctx.array([rhs[0] / A[0, 0]])
                stubs_imp, stubs_ka = dict(inv=inv1), dict(factorized=fact1)
            else:
                stubs_imp, stubs_ka = {}, {}
            with patched(imp, **stubs_imp), patched(ka, **stubs_ka):
                imp._calc_ybus(ppc)          # as _calc_sc does for the 50 Hz network before kappa is computed
                kappas.append(ka._kappa_method_c(net, ppc)[0])
        ref = ka._kappa(r / x)       # one R-X source: R/X at the equivalent frequency times fc/f is the 50 Hz R/X
        ctx.eq("kappa_c_with_inverse_equals_reference", kappas[0], ref)
        ctx.eq("kappa_c_with_factorisation_equals_reference", kappas[1], ref)
        ctx.eq("kappa_c_independent_of_inverse_y", kappas[0], kappas[1])
    return fn


def make_fault_impedance(kind):
    """the equivalent impedance at the fault location is the network's Thevenin impedance plus the fault impedance r_fault + j x_fault
    (per unit on the bus base), whether the fault is resistive, reactive or both - the real _calc_rx on a symbolic Zbus entry"""
    def fn(ctx):
        imp = ctx.load("pandapower.shortcircuit.impedance")
        from pandapower.pypower.idx_bus_sc import R_EQUIV, X_EQUIV, bus_cols_sc
        from pandapower.pypower.idx_bus import bus_cols, BASE_KV
        from symx.core import SComplex
        rf = ctx.var("r_fault_ohm", 0.01, 20.) if kind in ("resistive", "both") else 0.0
        xf = ctx.var("x_fault_ohm", 0.01, 20.) if kind in ("reactive", "both") else 0.0
        rk, xk = ctx.var("r_thevenin_pu", 0.001, 1.), ctx.var("x_thevenin_pu", 0.001, 1.)
        un, base = ctx.var("un_kv", 0.4, 400.), ctx.var("baseMVA", 1., 1000.)
        bus = ctx.obj(np.zeros((1, bus_cols + bus_cols_sc)))
        bus[0, BASE_KV] = un
        Z = ctx.obj(np.zeros((1, 1), dtype=complex))
        Z[0, 0] = SComplex(rk, xk) if ctx.symbolic else complex(rk, xk)
        ppci = {"bus": bus, "baseMVA": base, "internal": {"Zbus": Z}}
        net = _N()
        net["_options"] = {"inverse_y": True, "r_fault_ohm": rf, "x_fault_ohm": xf}
        imp._calc_rx(net, ppci, np.array([0]))
        zb = un * un / base
        ctx.eq("equivalent_resistance_is_thevenin_plus_fault_resistance", ppci["bus"][0, R_EQUIV] * zb, rk * zb + rf)
        ctx.eq("equivalent_reactance_is_thevenin_plus_fault_reactance", ppci["bus"][0, X_EQUIV] * zb, xk * zb + xf)
    return fn


def make_ext_grid():
    def fn(ctx):
        bbus = ctx.load("pandapower.build_bus")
        from pandapower.pypower.idx_bus_sc import C_MAX, C_MIN, bus_cols_sc
        from pandapower.pypower.idx_bus import GS, BS, BASE_KV, bus_cols
        ssc = ctx.var("s_sc_max_mva", 10., 10000.)
        k = ctx.var("k_rx", 0.01, 0.9)          # rx = 2k/(1-k^2): sqrt(rx^2+1) = (1+k^2)/(1-k^2)
        rx = 2 * k / (1 - k * k)
        S = ctx.var("base_mva", 1., 1000.)
        c = ctx.var("c", 0.9, 1.1)
        net = type("N", (dict,), {"__getattr__": lambda s, kk: s[kk]})()
        net["_options"] = {"mode": "sc", "case": "max"}
        net["_pd2ppc_lookups"] = {"bus": np.array([0])}
        net["_is_elements"] = {"ext_grid": np.array([True])}
        eg = pd.DataFrame({"bus": [0]})
        eg["s_sc_max_mva"] = ctx.series([ssc])
        eg["rx_max"] = ctx.series([rx])
        net["ext_grid"] = eg
        bus = ctx.obj(np.zeros((1, bus_cols + bus_cols_sc)))
        bus[0, C_MAX] = c
        ppc = {"bus": bus, "baseMVA": S}
        bbus._add_ext_grid_sc_impedance(net, ppc)
        g, b = bus[0, GS] / S, bus[0, BS] / S          # admittance in p.u.
        z2 = 1 / (g * g + b * b)                       # |z|^2 in p.u.
        ctx.eq("ext_grid_impedance_magnitude_is_c_over_ssc", z2 * ssc * ssc, c * c * S * S)
        ctx.eq("ext_grid_r_over_x_is_rx", g, -b * rx)
    return fn


def make_ext_grid_shared_bus():
    """several in-service ext_grids at one (fused) bus: their short-circuit admittances add up (parallel connection); ext_grids out of
    service contribute nothing - the real _add_ext_grid_sc_impedance with two symbolic feeders mapped to the same ppc bus"""
    def fn(ctx):
        bbus = ctx.load("pandapower.build_bus")
        from pandapower.pypower.idx_bus_sc import C_MAX, bus_cols_sc
        from pandapower.pypower.idx_bus import GS, BS, bus_cols
        s1, s2 = ctx.var("s_sc_1", 10., 10000.), ctx.var("s_sc_2", 10., 10000.)
        k1, k2 = ctx.var("k_rx_1", 0.01, 0.9), ctx.var("k_rx_2", 0.01, 0.9)
        rx1, rx2 = 2 * k1 / (1 - k1 * k1), 2 * k2 / (1 - k2 * k2)
        S = ctx.var("base_mva", 1., 1000.)
        c = ctx.var("c", 0.9, 1.1)
        net = type("N", (dict,), {"__getattr__": lambda s, kk: s[kk]})()
        net["_options"] = {"mode": "sc", "case": "max"}
        net["_pd2ppc_lookups"] = {"bus": np.array([0, 0, 0])}          # buses 0, 1, 2 fused into ppc bus 0
        net["_is_elements"] = {"ext_grid": np.array([True, False, True])}
        eg = pd.DataFrame({"bus": [0, 2, 1]})
        eg["s_sc_max_mva"] = ctx.series([s1, s1, s2])
        eg["rx_max"] = ctx.series([rx1, rx1, rx2])
        net["ext_grid"] = eg
        bus = ctx.obj(np.zeros((1, bus_cols + bus_cols_sc)))
        bus[0, C_MAX] = c
        ppc = {"bus": bus, "baseMVA": S}
        bbus._add_ext_grid_sc_impedance(net, ppc)
        g, b = bus[0, GS] / S, bus[0, BS] / S
        # feeder i: |y_i| = s_i/(c S) p.u.... in the code's units z = c/s_sc, x = z/sqrt(rx^2+1) = z (1-k^2)/(1+k^2), r = rx x = z 2k/(1+k^2)
        def y(s_, k_):
            z = c * S / s_
            x, r = z * (1 - k_ * k_) / (1 + k_ * k_), z * 2 * k_ / (1 + k_ * k_)
            d = r * r + x * x
            return r / d, -x / d
        g1, b1 = y(s1, k1)
        g2, b2 = y(s2, k2)
        ctx.eq("conductance_of_parallel_ext_grids_adds_up", g, g1 + g2)
        ctx.eq("susceptance_of_parallel_ext_grids_adds_up", b, b1 + b2)
    return fn


def make_kt():
    """IEC 60909-0 (12a): K_T = 0.95 cmax / (1 + 0.6 x_T), x_T the relative reactance sqrt(vk^2 - vkr^2)/100 of the transformer
    (independent of the rating), and 1 for power station units - the real _transformer_correction_factor"""
    def fn(ctx):
        bb = ctx.load("pandapower.build_branch")
        vk = ctx.var("vk_percent", 1., 25.)
        m = ctx.var("m_vkr", 0.05, 0.95)            # vkr = vk (1-m^2)/(1+m^2): sqrt(vk^2 - vkr^2) = vk 2m/(1+m^2)
        vkr = vk * (1 - m * m) / (1 + m * m)
        sn = ctx.var("sn_mva", 0.1, 1000.)
        cmax = ctx.var("cmax", 1.0, 1.1)
        df = pd.DataFrame({"power_station_unit": [False, True, None]})
        kt = bb._transformer_correction_factor(df, ctx.obj(np.array([vk, vk, vk])), ctx.obj(np.array([vkr, vkr, vkr])),
                                               ctx.obj(np.array([sn, sn, sn])), ctx.obj(np.array([cmax, cmax, cmax])))
        xt = vk * 2 * m / (1 + m * m) / 100
        ctx.eq("kt_is_0.95_cmax_over_1_plus_0.6_xt", kt[0] * (1 + xt * 0.6), cmax * 0.95)
        ctx.eq("kt_of_a_missing_power_station_flag_is_the_network_transformer_value", kt[2] * (1 + xt * 0.6), cmax * 0.95)
        ctx.eq("kt_of_a_power_station_unit_transformer_is_1", kt[1] * sn, sn)
    return fn


def make_gen_impedance():
    """synchronous generator: Z_G = R_G + j xd'' Ur^2/Sr in ohm, shunt admittance at the bus = 1/Z_G on the bus base as written by
    _add_gen_sc_z_kg_ks; K_G = Un/(Ur (1+pg)) * cmax / (1 + xd'' sin(phi)) (IEC 60909-0 (18)); R_Gf for the peak current = 0.15 / 0.07 / 0.05 xd''"""
    def fn(ctx):
        pc = ctx.load("pandapower.shortcircuit.ppc_conversion")
        from pandapower.pypower.idx_bus_sc import C_MAX, K_G, V_G, GS_P, BS_P, GS_GEN, BS_GEN, bus_cols_sc
        from pandapower.pypower.idx_bus import GS, BS, bus_cols
        vn_gen, vn_net = ctx.var("vn_gen_kv", 0.4, 30.), ctx.var("vn_bus_kv", 0.4, 30.)
        sn = ctx.var("sn_mva", 1., 500.)
        rd, xd = ctx.var("rdss_ohm", 0.001, 5.), ctx.var("xdss_pu", 0.05, 0.5)
        pg = ctx.var("pg_percent", 0., 10.)
        k = ctx.var("k_phi", 0.05, 0.95)            # cos phi = (1-k^2)/(1+k^2), sin phi = 2k/(1+k^2)
        cos = (1 - k * k) / (1 + k * k)
        c = ctx.var("cmax", 1.0, 1.1)
        g0, b0 = ctx.var("gs_before", 0., 1.), ctx.var("bs_before", -1., 1.)
        net = _N()
        net["_is_elements_final"] = {"gen": np.array([True, False])}
        net["_pd2ppc_lookups"] = {"bus": np.array([0, 0])}
        gen = pd.DataFrame({"bus": [0, 1]})
        for col, v in (("vn_kv", vn_gen), ("sn_mva", sn), ("rdss_ohm", rd), ("xdss_pu", xd), ("pg_percent", pg), ("cos_phi", cos)):
            gen[col] = ctx.series([v, v])
        gen["power_station_trafo"] = np.nan
        net["gen"] = gen
        b = pd.DataFrame({"x": [0, 1]})
        b["vn_kv"] = ctx.series([vn_net, vn_net])
        net["bus"] = b
        bus = ctx.obj(np.zeros((1, bus_cols + bus_cols_sc)))
        bus[0, C_MAX] = c
        bus[0, GS], bus[0, BS] = g0, b0
        ppc = {"bus": bus}
        pc._add_gen_sc_z_kg_ks(net, ppc)
        xg = xd * vn_gen * vn_gen / sn
        zb = vn_net * vn_net
        g, bb_ = bus[0, GS] - g0, bus[0, BS] - b0
        d = rd * rd + xg * xg
        ctx.eq("gen_conductance_is_real_part_of_1_over_zg_only_in_service_generators", g * d, rd * zb)
        ctx.eq("gen_susceptance_is_imag_part_of_1_over_zg", bb_ * d, -xg * zb)
        ctx.eq("gen_share_columns_hold_the_generator_admittance", bus[0, GS_GEN] * d, rd * zb)
        ctx.eq("gen_share_b_columns_hold_the_generator_admittance", bus[0, BS_GEN] * d, -xg * zb)
        sin = 2 * k / (1 + k * k)
        ctx.eq("kg_is_un_over_urg_cmax_over_1_plus_xd_sin_phi", bus[0, K_G] * (vn_gen * (1 + pg / 100)) * (1 + xd * sin), vn_net * c)
        ctx.eq("v_g_is_the_generator_rated_voltage", bus[0, V_G], vn_gen)
        # fictitious resistance for the peak current: ratio G/B of 1/(R_Gf + j X) is -R_Gf/X
        gp, bp = bus[0, GS_P], bus[0, BS_P]
        ratio = 0.15 if vn_gen <= 1. else (0.07 if sn < 100 else 0.05)      # forks the path in symbolic mode
        ctx.eq("fictitious_resistance_for_ip_is_0.15_0.07_0.05_of_xd", gp, -bp * ratio)
    return fn


def instances(tier):
    return [Inst("ikss_skss", make_ikss(), nvars=24, samples=3, timeout_ms=60000, meta=dict(part="ikss/skss/2ph/base")),
            Inst("kappa_radial", make_kappa("radial"), nvars=12, samples=3, meta=dict(part="kappa", method="radial")),
            Inst("kappa_method_b", make_kappa("B"), nvars=12, samples=3, meta=dict(part="kappa", method="B meshed")),
            Inst("kappa_method_b_lv", make_kappa("B_lv"), nvars=12, samples=3, meta=dict(part="kappa", method="B meshed, low voltage")),
            Inst("kappa_method_c_single_source", make_kappa_c(), nvars=16, samples=3, meta=dict(part="kappa", method="C, inverse_y True/False")),
            Inst("ext_grid_impedance", make_ext_grid(), nvars=16, samples=3, meta=dict(part="ext_grid")),
            Inst("ext_grid_impedance_shared_bus", make_ext_grid_shared_bus(), nvars=16, samples=3, meta=dict(part="ext_grid", n=2)),
            Inst("transformer_correction_factor_kt", make_kt(), nvars=12, samples=3, meta=dict(part="kt")),
            Inst("generator_impedance_kg", make_gen_impedance(), nvars=20, samples=3, meta=dict(part="gen"))] + \
           [Inst(f"fault_impedance_{k}", make_fault_impedance(k), nvars=12, samples=3, meta=dict(part="fault impedance", kind=k)) for k in ("resistive", "reactive", "both")]


LEVEL_TEXT = ("Bounded model checking of the IEC 60909 result formulas: with the Thevenin impedance as a symbolic input the real _calc_ikss, "
              "_calc_ip, kappa functions and the ext_grid short-circuit impedance builder are shown to satisfy ikss*sqrt3*|Zk| = c*Un, "
              "skss = sqrt3*Un*ikss, ikss_2ph = sqrt3/2*ikss_3ph, ip = kappa*sqrt2*ikss, 1.02 <= kappa <= 2 and independence of the per-unit base.")
LEVEL_NOTE = ("Trusted: the network's Thevenin impedance (compiled linear algebra, outside), exp's contract on t <= 0, z3. Bounds: one faulted bus.")
