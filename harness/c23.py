"""C23 Result-preserving toolbox transformations preserve power flow results (value-level replacements)."""
import copy

import numpy as np
import pandas as pd

from .common import pp, Inst, setcol, patched
from . import c02

PROPERTY = "C23"
LEVEL = "translation_validation"
FUNCTIONS = [("pandapower.toolbox.grid_modification", "replace_line_by_impedance"), ("pandapower.toolbox.grid_modification", "replace_impedance_by_line"),
             ("pandapower.toolbox.grid_modification", "replace_ward_by_internal_elements"), ("pandapower.toolbox.grid_modification", "replace_ext_grid_by_gen"),
             ("pandapower.toolbox.grid_modification", "replace_gen_by_ext_grid"),
             ("pandapower.build_branch", "_calc_line_parameter"), ("pandapower.build_branch", "_calc_impedance_parameter"),
             ("pandapower.build_bus", "_calc_pq_elements_and_add_on_ppc"), ("pandapower.build_bus", "_calc_shunts_and_add_on_ppc")]
STUBS = ["builtin complex(r, x) in merge_parallel_line -> symbolic complex", "the create_* call made by the replace function is captured with its (symbolic) arguments and fed to the same ppc builders as the original "
         "element; table edits (drop, group membership, result table adaption, profiles) are stubbed out (structural)"]
ASSUMPTIONS = ["line/impedance/ward parameters symbolic; the documented result-preserving mode only_valid_replace=True (lines without c and g)"]
OUTSIDE = ["re-indexing, merge_nets, select_subnet (structural); fuse_buses beyond two buses joined by a closed bus-bus switch on one 5-bus ring", "drop_inactive_elements beyond 'removes rows only, keeps what is supplied' on one 6-bus net", "only_valid_replace=False (documented as not neutral)",
           "va_degree of an ext_grid replaced by a slack gen (a gen has no angle setpoint)"]
BOUNDS = {"quick": "one element per instance: line->impedance, impedance->line, ward->load+shunt, xward->load+shunt+impedance+gen, merge_parallel_line, ext_grid->gen, gen->ext_grid", "thorough": "same"}
_cache = {}


def _li_net():
    if "li" not in _cache:
        net = pp.create_empty_network(sn_mva=10.)
        b0 = pp.create_bus(net, 20.)
        b1 = pp.create_bus(net, 20.)
        pp.create_ext_grid(net, b0)
        pp.create_line_from_parameters(net, b0, b1, 2., 0.1, 0.3, 0., 1., parallel=2)
        pp.create_impedance(net, b0, b1, 0.01, 0.02, 10.)
        pp.create_load(net, b1, 1., 0.5)
        pp.create_ward(net, b1, 0.1, 0.05, 0.02, 0.01)
        pp.create_gen(net, b1, 0.3, vm_pu=1.01)
        pp.runpp(net, numba=False, lightsim2grid=False)
        _cache["li"] = net
    return _cache["li"]


NOOP = dict(_replace_group_member_element_type=lambda *a, **k: None, drop_lines=lambda *a, **k: None,
            drop_elements_simple=lambda *a, **k: None, _adapt_result_tables_in_replace_functions=lambda *a, **k: None,
            _adapt_profiles_in_replace_functions=lambda *a, **k: None, element_associated_groups=lambda *a, **k: {0: []},
            attach_to_groups=lambda *a, **k: None)


def _stubs(gm, **extra):
    d = {k: v for k, v in NOOP.items() if k in gm.__dict__}
    d.update(extra)
    return d


def make_line_to_imp():
    def fn(ctx):
        bb = ctx.load("pandapower.build_branch")
        mY = ctx.load("pandapower.pypower.makeYbus")
        gm = ctx.load("pandapower.toolbox.grid_modification")
        net = copy.deepcopy(_li_net())
        V = {c: ctx.var(c, *r) for c, r in {"r_ohm_per_km": (0.01, 1.), "x_ohm_per_km": (0.01, 1.), "length_km": (0.1, 50.), "parallel": (1., 4.)}.items()}
        for c, v in V.items():
            setcol(ctx, net.line, c, [v])
        simp = ctx.var("sn_impedance", 1., 100.)
        ppc = {"bus": ctx.obj(net._ppc["bus"]), "branch": ctx.obj(net._ppc["branch"].real), "baseMVA": net.sn_mva}
        bb._calc_line_parameter(net, ppc)
        fl, tl = net._pd2ppc_lookups["branch"]["line"]
        line_tp = c02._two_port(ctx, mY, ppc["branch"][fl].copy())
        cap = {}

        def fake_create_impedance(net_, fb, tb, **kw):
            cap.update(kw)
            cap["from_bus"], cap["to_bus"] = fb, tb
            return 99
        with patched(gm, **_stubs(gm, create_impedance=fake_create_impedance)):
            gm.replace_line_by_impedance(net, index=[0], sn_mva=[simp])
        ctx.true("line_was_replaced", bool(cap))
        if not cap:
            return
        imp = net.impedance
        for k_dst, k_src in [("rft_pu", "rft_pu"), ("xft_pu", "xft_pu"), ("gf_pu", "gf_pu"), ("bf_pu", "bf_pu"), ("sn_mva", "sn_mva"),
                             ("rtf_pu", "rft_pu"), ("xtf_pu", "xft_pu"), ("gt_pu", "gf_pu"), ("bt_pu", "bf_pu")]:   # create_impedance defaults tf := ft
            setcol(ctx, imp, k_dst, [cap[k_src]])
        ctx.true("same_terminal_buses", cap["from_bus"] == net.line.from_bus.values[0] and cap["to_bus"] == net.line.to_bus.values[0])
        bb._calc_impedance_parameter(net, ppc)
        fi, ti = net._pd2ppc_lookups["branch"]["impedance"]
        imp_tp = c02._two_port(ctx, mY, ppc["branch"][fi])
        for k in line_tp:
            ctx.eq(f"impedance_two_port_equals_line_two_port/{k}", imp_tp[k], line_tp[k])
    return fn


def make_imp_to_line():
    def fn(ctx):
        bb = ctx.load("pandapower.build_branch")
        mY = ctx.load("pandapower.pypower.makeYbus")
        gm = ctx.load("pandapower.toolbox.grid_modification")
        net = copy.deepcopy(_li_net())
        r, x, s = ctx.var("rft_pu", 0.001, 1.), ctx.var("xft_pu", 0.001, 1.), ctx.var("sn_mva", 1., 100.)
        for c, v in (("rft_pu", r), ("xft_pu", x), ("rtf_pu", r), ("xtf_pu", x), ("sn_mva", s)):
            setcol(ctx, net.impedance, c, [v])
        ppc = {"bus": ctx.obj(net._ppc["bus"]), "branch": ctx.obj(net._ppc["branch"].real), "baseMVA": net.sn_mva}
        bb._calc_impedance_parameter(net, ppc)
        fi, ti = net._pd2ppc_lookups["branch"]["impedance"]
        imp_tp = c02._two_port(ctx, mY, ppc["branch"][fi].copy())
        cap = {}

        def fake_create_line(net_, fb, tb, **kw):
            cap.update(kw)
            return 99
        with patched(gm, **_stubs(gm, create_line_from_parameters=fake_create_line)):
            gm.replace_impedance_by_line(net, index=[0])
        ctx.true("impedance_was_replaced", bool(cap))
        if not cap:
            return
        for c in ("length_km", "r_ohm_per_km", "x_ohm_per_km", "c_nf_per_km", "parallel"):
            setcol(ctx, net.line, c, [cap[c]])
        setcol(ctx, net.line, "g_us_per_km", [0.0])
        bb._calc_line_parameter(net, ppc)
        fl, tl = net._pd2ppc_lookups["branch"]["line"]
        line_tp = c02._two_port(ctx, mY, ppc["branch"][fl])
        for k in imp_tp:
            ctx.eq(f"line_two_port_equals_impedance_two_port/{k}", line_tp[k], imp_tp[k])
    return fn


def make_ward():
    def fn(ctx):
        bbus = ctx.load("pandapower.build_bus")
        gm = ctx.load("pandapower.toolbox.grid_modification")
        from pandapower.pypower.idx_bus import PD, QD, GS, BS
        net = copy.deepcopy(_li_net())
        W = {c: ctx.var(c, -5., 5.) for c in ("ps_mw", "qs_mvar", "pz_mw", "qz_mvar")}
        for c, v in W.items():
            setcol(ctx, net.ward, c, [v])

        def run(n):
            ppc = {"bus": ctx.obj(n._ppc["bus"]), "gen": ctx.obj(n._ppc["gen"]), "branch": ctx.obj(n._ppc["branch"].real), "baseMVA": n.sn_mva}
            ppc["bus"][:, [PD, QD, GS, BS]] = 0.
            bbus._calc_pq_elements_and_add_on_ppc(n, ppc)
            bbus._calc_shunts_and_add_on_ppc(n, ppc)
            return ppc["bus"]
        before = run(net)
        cap = {}

        def fake_load(net_, bus, p_mw, q_mvar=0, **kw):
            cap["load"] = dict(bus=bus, p_mw=p_mw, q_mvar=q_mvar)
            return 7

        def fake_shunt(net_, bus, q_mvar, p_mw=0., **kw):
            cap["shunt"] = dict(bus=bus, p_mw=p_mw, q_mvar=q_mvar, vn_kv=kw.get("vn_kv"))
            return 7
        net.res_ward = net.res_ward.iloc[0:0]
        with patched(gm, **_stubs(gm, create_load=fake_load, create_shunt=fake_shunt)):
            gm.replace_ward_by_internal_elements(net, wards=[0])
        ctx.true("ward_was_replaced", "load" in cap and "shunt" in cap)
        if len(cap) < 2:
            return
        n2 = copy.deepcopy(_li_net())
        n2.ward.in_service = False
        n2._is_elements["ward"] = np.array([False])
        n2.load = pd.concat([n2.load, n2.load.iloc[[0]]], ignore_index=True)
        n2._is_elements["load"] = np.array([True, True])
        for c, vals in (("p_mw", [n2.load.p_mw.values[0], cap["load"]["p_mw"]]), ("q_mvar", [n2.load.q_mvar.values[0], cap["load"]["q_mvar"]])):
            setcol(ctx, n2.load, c, vals)
        n2.load.loc[1, "bus"] = cap["load"]["bus"]
        pp.create_shunt(n2, cap["shunt"]["bus"], 0.1, 0.1)
        n2._is_elements["shunt"] = np.array([True])
        setcol(ctx, n2.shunt, "p_mw", [cap["shunt"]["p_mw"]])
        setcol(ctx, n2.shunt, "q_mvar", [cap["shunt"]["q_mvar"]])
        after = run(n2)
        for b in range(before.shape[0]):
            for nm, col in (("PD", PD), ("QD", QD), ("GS", GS), ("BS", BS)):
                ctx.eq(f"bus_rows_unchanged_by_replacement/{nm}{b}", after[b, col], before[b, col])
    return fn


def make_slack(direction):
    def fn(ctx):
        gm = ctx.load("pandapower.toolbox.grid_modification")
        net = copy.deepcopy(_li_net())
        cap = {}
        if direction == "ext_grid_to_gen":
            vm = ctx.var("vm_pu", 0.9, 1.1)
            setcol(ctx, net.ext_grid, "vm_pu", [vm])
            pres = ctx.var("p_result", -10., 10.)
            net.res_ext_grid = net.res_ext_grid.astype(object if ctx.symbolic else float)
            net.res_ext_grid.loc[0, "p_mw"] = pres

            def fake_gen(net_, bus, **kw):
                cap.update(kw)
                cap["bus"] = bus
                net_.gen.loc[99, "bus"] = bus
                return 99
            with patched(gm, **_stubs(gm, create_gen=fake_gen)):
                try:
                    gm.replace_ext_grid_by_gen(net, ext_grids=[0], slack=True)
                except Exception as e:          # table edits after the create call are structural
                    cap.setdefault("after_error", type(e).__name__)
            ctx.true("gen_created", "vm_pu" in cap)
            if "vm_pu" in cap:
                ctx.eq("gen_holds_the_ext_grid_voltage", cap["vm_pu"], vm)
                ctx.eq("gen_starts_at_the_ext_grid_result_power", cap["p_mw"], pres)
                ctx.true("gen_at_the_ext_grid_bus", cap["bus"] == _li_net().ext_grid.bus.values[0])
        else:
            vm = ctx.var("vm_pu", 0.9, 1.1)
            setcol(ctx, net.gen, "vm_pu", [vm])

            def fake_eg(net_, bus, **kw):
                cap.update(kw)
                cap["bus"] = bus
                net_.ext_grid.loc[99, "bus"] = bus
                return 99
            with patched(gm, **_stubs(gm, create_ext_grid=fake_eg)):
                try:
                    gm.replace_gen_by_ext_grid(net, gens=[0])
                except Exception as e:
                    cap.setdefault("after_error", type(e).__name__)
            ctx.true("ext_grid_created", "vm_pu" in cap)
            if "vm_pu" in cap:
                ctx.eq("ext_grid_holds_the_gen_voltage", cap["vm_pu"], vm)
                ctx.true("ext_grid_at_the_gen_bus", cap["bus"] == _li_net().gen.bus.values[0])
    return fn


def make_merge_parallel():
    """merge_parallel_line: a line with parallel = p becomes a single line with the same two-port and the same total rating"""
    def fn(ctx):
        bb = ctx.load("pandapower.build_branch")
        mY = ctx.load("pandapower.pypower.makeYbus")
        gm = ctx.load("pandapower.toolbox.grid_modification")
        from symx.core import SComplex
        net = copy.deepcopy(_li_net())
        V = {c: ctx.var(c, *r) for c, r in {"r_ohm_per_km": (0.01, 1.), "x_ohm_per_km": (0.01, 1.), "c_nf_per_km": (0., 300.), "g_us_per_km": (0., 10.),
                                            "length_km": (0.1, 50.), "parallel": (1., 4.), "max_i_ka": (0.1, 2.), "df": (0.1, 1.)}.items()}
        for c, v in V.items():
            setcol(ctx, net.line, c, [v])
        fl, tl = net._pd2ppc_lookups["branch"]["line"]

        def two_port():
            ppc = {"bus": ctx.obj(net._ppc["bus"]), "branch": ctx.obj(net._ppc["branch"].real), "baseMVA": net.sn_mva}
            bb._calc_line_parameter(net, ppc)
            return c02._two_port(ctx, mY, ppc["branch"][fl].copy())
        before = two_port()
        rating_before = net.line.max_i_ka.values[0] * net.line.df.values[0] * net.line.parallel.values[0]
        extra = dict(complex=(lambda re, im: SComplex(re, im))) if ctx.symbolic else {}
        with patched(gm, **extra):
            gm.merge_parallel_line(net, 0)
        after = two_port()
        for k in before:
            ctx.eq(f"merged_line_two_port_equals_parallel_lines/{k}", after[k], before[k])
        ctx.eq("merged_line_is_single", net.line.parallel.values[0], 1.0)
        ctx.eq("total_current_rating_preserved", net.line.max_i_ka.values[0] * net.line.df.values[0] * net.line.parallel.values[0], rating_before)
    return fn


def _xw_net():
    if "xw" not in _cache:
        net = pp.create_empty_network(sn_mva=10.)
        b0 = pp.create_bus(net, 20.)
        b1 = pp.create_bus(net, 20.)
        pp.create_ext_grid(net, b0)
        pp.create_line_from_parameters(net, b0, b1, 2., 0.1, 0.3, 10., 1.)
        pp.create_load(net, b1, 1., 0.5)
        pp.create_xward(net, b1, 0.1, 0.05, 0.02, 0.01, 0.4, 0.8, 1.02)
        pp.create_impedance(net, b0, b1, 0.01, 0.02, 10.)
        pp.runpp(net, numba=False, lightsim2grid=False)
        _cache["xw"] = net
    return _cache["xw"]


def make_xward():
    """replace_xward_by_internal_elements: constant power part -> load, constant impedance part -> shunt, internal impedance ->
    impedance element with the same two-port, internal voltage source -> generator with the same voltage set point and no active power"""
    def fn(ctx):
        bbus = ctx.load("pandapower.build_bus")
        bb = ctx.load("pandapower.build_branch")
        mY = ctx.load("pandapower.pypower.makeYbus")
        gm = ctx.load("pandapower.toolbox.grid_modification")
        from pandapower.pypower.idx_bus import PD, QD, GS, BS
        net = copy.deepcopy(_xw_net())
        W = {c: ctx.var(c, -5., 5.) for c in ("ps_mw", "qs_mvar", "pz_mw", "qz_mvar")}
        W.update(r_ohm=ctx.var("r_ohm", 0.01, 10.), x_ohm=ctx.var("x_ohm", 0.01, 10.), vm_pu=ctx.var("vm_pu", 0.9, 1.1))
        for c, v in W.items():
            setcol(ctx, net.xward, c, [v])
        sn = ctx.var("sn_mva", 1., 100.)
        net.sn_mva = sn

        def bus_rows(n):
            ppc = {"bus": ctx.obj(n._ppc["bus"]), "gen": ctx.obj(n._ppc["gen"]), "branch": ctx.obj(n._ppc["branch"].real), "baseMVA": sn}
            ppc["bus"][:, [PD, QD, GS, BS]] = 0.
            bbus._calc_pq_elements_and_add_on_ppc(n, ppc)
            bbus._calc_shunts_and_add_on_ppc(n, ppc)
            return ppc
        ppc0 = bus_rows(net)
        bb._calc_xward_parameter(net, ppc0)
        fx, tx = net._pd2ppc_lookups["branch"]["xward"]
        xw_tp = c02._two_port(ctx, mY, ppc0["branch"][fx].copy())
        cap = {}

        def fake(name, ret):
            def f_(net_, *a, **kw):
                cap[name] = (a, kw)
                return ret
            return f_
        net.res_xward = net.res_xward.iloc[0:0]
        with patched(gm, **_stubs(gm, create_bus=fake("bus", 77), create_load=fake("load", 7), create_shunt=fake("shunt", 7), create_gen=fake("gen", 7),
                                  create_impedance=fake("impedance", 7))):
            gm.replace_xward_by_internal_elements(net, xwards=[0])
        ctx.true("xward_was_replaced_by_bus_load_shunt_gen_impedance", set(cap) == {"bus", "load", "shunt", "gen", "impedance"})
        if set(cap) != {"bus", "load", "shunt", "gen", "impedance"}:
            return
        (lbus, lp, lq), _ = cap["load"]
        (sbus,), skw = cap["shunt"]
        (gbus, gp, gvm), _ = cap["gen"]
        (ifb, itb, ir, ix, isn), _ = cap["impedance"]
        ctx.true("elements_sit_at_the_xward_bus_and_the_new_internal_bus", lbus == 1 and sbus == 1 and gbus == 77 and ifb == 1 and itb == 77)
        ctx.eq("internal_source_has_the_xward_voltage_setpoint", gvm, W["vm_pu"])
        ctx.eq("internal_source_injects_no_active_power", gp, 0.0)
        # bus rows: the same net with the xward switched off and the captured load / shunt added
        n2 = copy.deepcopy(_xw_net())
        n2.sn_mva = sn
        n2._is_elements["xward"] = np.array([False])
        n2.load = pd.concat([n2.load, n2.load.iloc[[0]]], ignore_index=True)
        n2._is_elements["load"] = np.array([True, True])
        setcol(ctx, n2.load, "p_mw", [n2.load.p_mw.values[0], lp])
        setcol(ctx, n2.load, "q_mvar", [n2.load.q_mvar.values[0], lq])
        pp.create_shunt(n2, sbus, 0.1, 0.1)
        n2._is_elements["shunt"] = np.array([True])
        setcol(ctx, n2.shunt, "p_mw", [skw["p_mw"]])
        setcol(ctx, n2.shunt, "q_mvar", [skw["q_mvar"]])
        ppc1 = bus_rows(n2)
        for b in range(ppc0["bus"].shape[0]):
            for nm, col in (("PD", PD), ("QD", QD), ("GS", GS), ("BS", BS)):
                ctx.eq(f"bus{b}_{nm}_unchanged", ppc1["bus"][b, col], ppc0["bus"][b, col])
        # internal impedance: the impedance element's two-port equals the xward branch
        for k_dst, v in (("rft_pu", ir), ("xft_pu", ix), ("rtf_pu", ir), ("xtf_pu", ix), ("sn_mva", isn)):
            setcol(ctx, n2.impedance, k_dst, [v])
        for k_dst in ("gf_pu", "bf_pu", "gt_pu", "bt_pu"):
            if k_dst in n2.impedance:
                setcol(ctx, n2.impedance, k_dst, [0.0])
        bb._calc_impedance_parameter(n2, ppc1)
        fi, ti = n2._pd2ppc_lookups["branch"]["impedance"]
        imp_tp = c02._two_port(ctx, mY, ppc1["branch"][fi])
        for k in xw_tp:
            ctx.eq(f"impedance_two_port_equals_xward_branch/{k}", imp_tp[k], xw_tp[k])
    return fn


DROP_FLAGS = ["trafo0_in_service", "trafo1_in_service", "switch_at_line0_closed", "line2_in_service", "bus5_in_service", "load2_in_service", "line4_in_service"]


def _drop_net():
    if "drop" not in _cache:
        net = pp.create_empty_network()
        b = [pp.create_bus(net, v) for v in (110., 20., 20., 20., 20., 20.)]
        pp.create_ext_grid(net, b[0])
        for _ in range(2):
            pp.create_transformer_from_parameters(net, b[0], b[1], 40, 110, 20, 0.3, 12, 20, 0.05)
        for f, t in ((1, 2), (2, 3), (3, 4), (4, 1), (4, 5)):
            pp.create_line_from_parameters(net, b[f], b[t], 2., 0.1, 0.3, 10., 1.)
        pp.create_switch(net, b[2], 0, "l", closed=False)
        pp.create_switch(net, b[1], 1, "t", closed=True)
        pp.create_load(net, b[2], 1., 0.3)
        pp.create_load(net, b[3], 2., 0.5)
        pp.create_load(net, b[5], 0.5, 0.1)
        _cache["drop"] = net
    return _cache["drop"]


def make_drop_inactive(nflags):
    """drop_inactive_elements on a net whose in-service flags and switch states are symbolic booleans (the harness forks on them, cf. C26):
    the function may only remove rows - every row that survives is exactly the row the user had (incl. switch states), and everything
    that is in service and supplied survives"""
    def fn(ctx):
        gm = ctx.load("pandapower.toolbox.grid_modification")
        net = copy.deepcopy(_drop_net())
        F = {nm: ((ctx.var(nm, 0., 1.) >= 0.5) if k < nflags else True) for k, nm in enumerate(DROP_FLAGS)}
        D = {nm: bool(v) for nm, v in F.items()}
        net.trafo.loc[0, "in_service"] = D["trafo0_in_service"]
        net.trafo.loc[1, "in_service"] = D["trafo1_in_service"]
        net.switch.loc[0, "closed"] = D["switch_at_line0_closed"]
        net.line.loc[2, "in_service"] = D["line2_in_service"]
        net.line.loc[4, "in_service"] = D["line4_in_service"]
        net.bus.loc[5, "in_service"] = D["bus5_in_service"]
        net.load.loc[2, "in_service"] = D["load2_in_service"]
        before = {t: net[t].copy() for t in ("bus", "line", "trafo", "switch", "load", "ext_grid")}
        gm.drop_inactive_elements(net)
        for t, df0 in before.items():
            ok_subset = set(net[t].index) <= set(df0.index)
            ctx.true(f"no_rows_invented/{t}", ok_subset)
            same = True
            for i in net[t].index:
                if i not in df0.index:
                    continue
                for c in df0.columns:
                    a, b_ = net[t].at[i, c], df0.at[i, c]
                    if c == "in_service":
                        # an unsupplied element that cannot be removed (a bus still referenced by a branch) may be switched off
                        same = same and (bool(a) == bool(b_) or (bool(b_) and not bool(a)))
                        continue
                    na_a = a is None or a is pd.NA or (isinstance(a, float) and a != a)
                    na_b = b_ is None or b_ is pd.NA or (isinstance(b_, float) and b_ != b_)
                    if na_a or na_b:
                        same = same and (na_a and na_b)
                    elif not bool(a == b_):
                        same = False
            ctx.true(f"surviving_rows_are_the_users_rows/{t}", same)
        # reference: supplied buses = reachable from the ext_grid bus over in-service branches whose switches are closed
        bus_ok = {i: True for i in range(6)}
        bus_ok[5] = D["bus5_in_service"]
        edges = []
        for k in (0, 1):
            if D[f"trafo{k}_in_service"]:
                edges.append((0, 1))
        lines = {0: (1, 2), 1: (2, 3), 2: (3, 4), 3: (4, 1), 4: (4, 5)}
        for k, (f, t) in lines.items():
            ins = {2: D["line2_in_service"], 4: D["line4_in_service"]}.get(k, True)
            closed = D["switch_at_line0_closed"] if k == 0 else True
            if ins and closed and bus_ok[f] and bus_ok[t]:
                edges.append((f, t))
        reach = {0}
        changed = True
        while changed:
            changed = False
            for f, t in edges:
                if (f in reach) != (t in reach):
                    reach |= {f, t}
                    changed = True
        for i in range(6):
            if i in reach and bus_ok[i]:
                ctx.true(f"supplied_bus_survives/{i}", i in net.bus.index)
        for li, (lb, flag) in enumerate(((2, True), (3, True), (5, D["load2_in_service"]))):
            if flag and lb in reach and bus_ok[lb]:
                ctx.true(f"supplied_load_survives/{li}", li in net.load.index)
            if not flag:
                ctx.true(f"out_of_service_load_is_dropped/{li}", li not in net.load.index)
        for k in (0, 1):
            if not D[f"trafo{k}_in_service"]:
                ctx.true(f"out_of_service_trafo_is_dropped/{k}", k not in net.trafo.index)
            else:
                ctx.true(f"supplied_trafo_survives/{k}", k in net.trafo.index)
    return fn


_FUSE = {}


def _fuse_net():
    """ring with a closed bus-bus switch (buses 2 and 4) and two normally-open line switches; the index of the second open line (4) and of
    a closed line switch's line (2... see below) coincide with bus indices, so that a reroute that forgets the switch type changes the topology"""
    if "net" not in _FUSE:
        net = pp.create_empty_network(sn_mva=10.)
        b = [pp.create_bus(net, 20.) for _ in range(5)]
        pp.create_ext_grid(net, b[0], vm_pu=1.02)
        for f, t, l in ((0, 1, 2.0), (1, 2, 1.5), (0, 3, 3.0), (3, 2, 1.0), (1, 3, 2.5)):
            pp.create_line_from_parameters(net, b[f], b[t], l, 0.2, 0.1, 200., 1.)
        for bus, pq in ((1, .3), (2, .4), (3, .2), (4, .25)):
            pp.create_load(net, b[bus], pq, pq / 3)
        pp.create_switch(net, b[2], b[4], et="b", closed=True)
        pp.create_switch(net, b[2], 3, et="l", closed=False)
        pp.create_switch(net, b[3], 4, et="l", closed=False)        # element 4 == index of the bus that is fused away
        pp.create_switch(net, b[1], 4, et="l", closed=True)
        pp.runpp(net, numba=False, lightsim2grid=False, check_connectivity=False)
        _FUSE["net"] = net
    return _FUSE["net"]


def make_fuse_buses():
    """fuse_buses(net, b1, [b2]) for two buses joined by a closed bus-bus switch is electrically neutral: the real fuse_buses is applied to the
    tables, the real _pd2ppc + makeYbus convert the network before and after, and the admittance between all surviving buses as well as
    the demand at them is the same for all line parameters (line and transformer switches keep their element)"""
    def fn(ctx):
        gm = ctx.load("pandapower.toolbox.grid_modification")
        p2 = ctx.load("pandapower.pd2ppc")
        mY = ctx.load("pandapower.pypower.makeYbus")
        from pandapower.pypower.idx_bus import PD, QD
        V = {c: [ctx.var(f"{c}{i}", *r) for i in range(2)] for c, r in {"r_ohm_per_km": (0.01, 1.), "x_ohm_per_km": (0.01, 1.), "c_nf_per_km": (1., 300.)}.items()}
        before = copy.deepcopy(_fuse_net())
        after = copy.deepcopy(_fuse_net())
        gm.fuse_buses(after, 2, [4])
        ctx.true("fused_bus_is_dropped", 4 not in after.bus.index)
        keep = before.switch.et != "b"
        ctx.true("line_switches_keep_their_element", bool((after.switch.loc[keep[keep].index.intersection(after.switch.index), "element"].values ==
                                                             before.switch.loc[keep, "element"].values).all()) if keep.sum() == after.switch.et.ne("b").sum() else False)
        res = []
        for net in (before, after):
            for c, v in V.items():
                col = list(net.line[c].values)
                col[2], col[4] = v          # line 2 (index of the surviving bus) and line 4 (index of the fused bus)
                setcol(ctx, net.line, c, col)
            net._options["recycle"] = None
            ppc, ppci = p2._pd2ppc(net)
            Ybus, Yf, Yt = mY.makeYbus(ppci["baseMVA"], ppci["bus"], ppci["branch"])
            Y = Ybus.toarray() if hasattr(Ybus, "toarray") else np.asarray(Ybus)
            lk = net._pd2ppc_lookups["bus"]
            res.append((Y, [int(lk[i]) for i in range(4)], ppci["bus"]))
        (A, la, ba), (B, lb, bb_) = res
        for i in range(4):
            ctx.close(f"demand_p_at_bus{i}", ba[la[i], PD], bb_[lb[i], PD], 1e-9)
            ctx.close(f"demand_q_at_bus{i}", ba[la[i], QD], bb_[lb[i], QD], 1e-9)
            for j in range(4):
                a, b = A[la[i], la[j]], B[lb[i], lb[j]]
                ctx.close(f"Ybus[{i},{j}].re", a.real, b.real, 1e-9)
                ctx.close(f"Ybus[{i},{j}].im", a.imag, b.imag, 1e-9)
    return fn


def instances(tier):
    return [Inst("line_to_impedance", make_line_to_imp(), nvars=24, samples=3, meta=dict(function="replace_line_by_impedance")),
            Inst("impedance_to_line", make_imp_to_line(), nvars=24, samples=3, meta=dict(function="replace_impedance_by_line")),
            Inst("ward_to_load_and_shunt", make_ward(), nvars=24, samples=3, meta=dict(function="replace_ward_by_internal_elements")),
            Inst("xward_to_internal_elements", make_xward(), nvars=30, samples=3, meta=dict(function="replace_xward_by_internal_elements")),
            Inst("merge_parallel_line", make_merge_parallel(), nvars=24, samples=3, meta=dict(function="merge_parallel_line")),
            Inst("drop_inactive_elements_flags", make_drop_inactive(5 if tier == "quick" else 7), nvars=10, samples=4, max_paths=2000, raises=(UserWarning,),
                 meta=dict(function="drop_inactive_elements", flags=5 if tier == "quick" else 7)),
            Inst("fuse_buses_closed_bus_switch", make_fuse_buses(), nvars=12, samples=3, raises=(UserWarning,), meta=dict(function="fuse_buses")),
            Inst("ext_grid_to_gen", make_slack("ext_grid_to_gen"), nvars=12, samples=3, meta=dict(function="replace_ext_grid_by_gen")),
            Inst("gen_to_ext_grid", make_slack("gen_to_ext_grid"), nvars=12, samples=3, meta=dict(function="replace_gen_by_ext_grid"))]


LEVEL_TEXT = ("Translation validation of the value-level replacement functions: the real replace_* function runs on an element with symbolic "
              "parameters, the element it creates is captured and fed to the same real ppc builders as the original, and z3 shows the "
              "two-port / bus rows handed to the solver identical, for all parameter values.")
LEVEL_NOTE = ("Trusted: the structural part of the functions (drops, groups, result/profile adaption: stubbed), Newton, z3. Bounds: one element per instance.")
